"""C05  Rigid-motion and electromagnetic-scaling invariance.

Decided:
 D1 R-LIT   Rotation_Matrix: each axis literal is a proper right-handed rotation about its axis
            (entries in {0, 1, cos a, +-sin a}, unit row/column on the axis, antisymmetric sine
            pair in the orthogonal plane), its angle is taken from the component with the same
            index as its guard, degrees -> radians, and the product is Z @ Y @ X; apply = m @ v.
 D2 R-SIB   Wire / Curve x rotate / translate / scale update every geometric attribute of their
            class alike (both end points or all segment ends; scale also the radius), Wire methods
            recompute the end-point cache; Geo_Container dispatches to all objects or by tag.
 D3 R-ORDER main: tags -> rotate/translate in sort-key order -> scale -> taper options -> Mininec.
 D4 R-EFFECT wavelength-dependent constants have a single writer (the f setter) and derive from
            the frequency only; no other function contains the speed-of-light literal.
Not decided: invariance of impedances / currents / pattern to 5e-4 (numeric).
"""
import ast
from ..model import AnalysisError, walk_no_nested, norm, dotted, parent, is_const, const_value
from ..dataflow import product_of
from ..rules import loops_in, calls_in, assigns_to_attr, loop_reaches_on_all_paths


def entry_kind(e, avar):
    """classify a matrix entry: 0, 1, 'c', 's', '-s', '-c' or None"""
    if is_const(e):
        v = const_value(e)
        if v == 0:
            return '0'
        if v == 1:
            return '1'
        return None
    neg = False
    if isinstance(e, ast.UnaryOp) and isinstance(e.op, ast.USub):
        neg = True
        e = e.operand
    if isinstance(e, ast.Call) and len(e.args) == 1 and norm(e.args[0]) == avar:
        d = dotted(e.func) or ''
        if d.endswith('.cos') or d == 'cos':
            return '-c' if neg else 'c'
        if d.endswith('.sin') or d == 'sin':
            return '-s' if neg else 's'
    return None


def run(ctx, ck):
    prog = ctx.program
    m = ctx.model
    ck.rule('R-LIT.rotation', 'axis rotation literals are proper right-handed rotations; product Z@Y@X')
    ck.rule('R-SIB.transform', 'every transformation updates all geometry attributes of its class')
    ck.rule('R-SIB.dispatch', 'Geo_Container dispatches to all objects or to the tagged one')
    ck.rule('R-ORDER.main', 'tags -> rotate/translate (sorted by key) -> scale -> taper -> Mininec')
    ck.rule('R-EFFECT.wavelength', 'wavelength constants: single writer, frequency-only')

    # ---------------------------------------------------------------- D1
    f = m.func('mininec.Rotation_Matrix.__init__')
    fl = ctx.flow(f)
    blocks = [n for n in f.body() if isinstance(n, ast.If)]
    found = {}
    def helper_trig(call):
        """(K, ok) if call is <helper>(rotation[K]) and the helper returns (cos(x), sin(x)) with
        x = argument / 180 * pi"""
        if not (isinstance(call, ast.Call) and len(call.args) == 1 and isinstance(call.args[0], ast.Subscript)
                and isinstance(call.args[0].slice, ast.Constant)):
            return None
        name = call.func.attr if isinstance(call.func, ast.Attribute) else (
            call.func.id if isinstance(call.func, ast.Name) else None)
        h = m.resolve_method('Rotation_Matrix', name) if name else None
        if h is None:
            return None
        hp = h.bound_params()
        rets = [r_ for r_ in walk_no_nested(h.node) if isinstance(r_, ast.Return)]
        if len(hp) != 1 or len(rets) != 1 or not isinstance(rets[0].value, ast.Tuple) or len(rets[0].value.elts) != 2:
            return None
        hfl = ctx.flow(h)
        c_, s_ = [hfl.inline(e_, hfl.node_id_of(rets[0])) for e_ in rets[0].value.elts]

        def arg_of(e_, fn):
            if isinstance(e_, ast.Call) and (dotted(e_.func) or '').endswith(fn) and len(e_.args) == 1:
                return e_.args[0]
            return None
        ca, sa = arg_of(c_, 'cos'), arg_of(s_, 'sin')
        if ca is None or sa is None or norm(ca) != norm(sa):
            return None
        pr = product_of(ca)
        nn, dd = pr.texts()
        okang = nn == sorted([hp[0], 'np.pi']) and not dd and abs(pr.coef - 1 / 180) < 1e-15
        return call.args[0].slice.value, okang

    for b in blocks:
        t = b.test
        if not (isinstance(t, ast.Subscript) and isinstance(t.slice, ast.Constant)):
            continue
        K = t.slice.value
        base = norm(t.value)
        mats = [s for s in b.body if isinstance(s, ast.Assign) and isinstance(s.value, ast.Call)
                and (dotted(s.value.func) or '').endswith('array')]
        ang = [s for s in b.body if isinstance(s, ast.Assign) and isinstance(s.targets[0], ast.Name)
               and not isinstance(s.value, ast.Call)]
        unp = [s for s in b.body if isinstance(s, ast.Assign) and isinstance(s.targets[0], ast.Tuple)
               and isinstance(s.value, ast.Call)]
        trig = {}
        if len(ang) == 1 and len(mats) == 1:
            avar = ang[0].targets[0].id
            pr = product_of(ang[0].value)
            nn, dd = pr.texts()
            ok = nn == sorted(['%s[%d]' % (base, K), 'np.pi']) and not dd and abs(pr.coef - 1 / 180) < 1e-15
            ck.ob('R-LIT.rotation', 'axis%s|angle' % K, ok, f.loc(ang[0]),
                  'angle = %s (component %d, degrees -> radians)' % (norm(ang[0].value), K))
        elif len(unp) == 1 and len(mats) == 1 and len(unp[0].targets[0].elts) == 2:
            ht = helper_trig(unp[0].value)
            ok = ht is not None and ht[0] == K and ht[1] and norm(unp[0].value.args[0].value) == base
            ck.ob('R-LIT.rotation', 'axis%s|angle' % K, ok, f.loc(unp[0]),
                  'cos / sin of component %d (degrees -> radians) through %s' % (K, norm(unp[0].value.func)))
            cn, sn = [e_.id for e_ in unp[0].targets[0].elts]
            trig = {cn: 'c', sn: 's'}
            avar = None
        else:
            ck.ob('R-LIT.rotation', 'axis%s|shape' % K, False, f.loc(b), 'unexpected block shape')
            continue

        def kind_of(e_):
            if trig:
                neg = False
                x_ = e_
                if isinstance(x_, ast.UnaryOp) and isinstance(x_.op, ast.USub):
                    neg = True
                    x_ = x_.operand
                if isinstance(x_, ast.Name) and x_.id in trig:
                    return ('-' if neg else '') + trig[x_.id]
                return entry_kind(e_, '\x00')
            return entry_kind(e_, avar)
        lit = mats[0].value.args[0]
        rows = lit.elts if isinstance(lit, ast.List) else []
        okm = len(rows) == 3 and all(isinstance(r, ast.List) and len(r.elts) == 3 for r in rows)
        why = 'not a 3x3 literal'
        if okm:
            M = [[kind_of(e) for e in r.elts] for r in rows]
            a, b1, c1 = K, (K + 1) % 3, (K + 2) % 3
            want = {}
            for i in range(3):
                for j in range(3):
                    want[(i, j)] = '0'
            want[(a, a)] = '1'
            want[(b1, b1)] = 'c'
            want[(c1, c1)] = 'c'
            want[(c1, b1)] = 's'
            want[(b1, c1)] = '-s'
            diff = [(i, j, M[i][j], want[(i, j)]) for i in range(3) for j in range(3) if M[i][j] != want[(i, j)]]
            okm = not diff
            why = 'entries %s' % M if okm else 'entries differ from a right-handed rotation about axis %d at %s' % (K, diff)
        ck.ob('R-LIT.rotation', 'axis%s|matrix' % K, okm, f.loc(mats[0]), why)
        found[K] = mats[0].targets[0].id
    ck.floor('axis rotation blocks', len(found), 3)
    asg = assigns_to_attr(f, 'self.m')
    ok = len(asg) == 1 and len(found) == 3 and norm(asg[0].value) == '%s @ %s @ %s' % (found[2], found[1], found[0])
    ck.ob('R-LIT.rotation', 'product', ok, f.loc(asg[0] if asg else None),
          'self.m = %s (X applied first, then Y, then Z)' % (norm(asg[0].value) if asg else '?'))
    # identity defaults
    ids = [s for s in f.body() if isinstance(s, ast.Assign) and len(s.targets) == 3]
    ok = len(ids) == 1 and norm(ids[0].value) == 'np.eye(3)' and \
        sorted(norm(t) for t in ids[0].targets) == sorted(found.values())
    ck.ob('R-LIT.rotation', 'identity-default', ok, f.loc(), 'unused axes default to the identity')
    # every matrix attribute is the product Z @ Y @ X or its transpose X.T @ Y.T @ Z.T
    def mat_chain(e):
        out = []

        def rec(x):
            if isinstance(x, ast.BinOp) and isinstance(x.op, ast.MatMult):
                rec(x.left)
                rec(x.right)
            else:
                out.append(norm(x))
        rec(e)
        return out
    if len(found) == 3:
        fwd = [found[2], found[1], found[0]]
        bwd = [found[0] + '.T', found[1] + '.T', found[2] + '.T']
        mats = {}
        for s_ in f.body():
            if isinstance(s_, ast.Assign) and isinstance(s_.targets[0], ast.Attribute) and \
               any(isinstance(x, ast.BinOp) and isinstance(x.op, ast.MatMult) for x in ast.walk(s_.value)):
                ch = mat_chain(s_.value)
                kind = 'forward' if ch == fwd else ('transpose' if ch == bwd else None)
                mats[norm(s_.targets[0])] = kind
                if norm(s_.targets[0]) != 'self.m':
                    ck.ob('R-LIT.rotation', 'matrix|%s' % norm(s_.targets[0]), kind is not None, f.loc(s_),
                          '%s = %s is %s' % (norm(s_.targets[0]), ' @ '.join(ch), kind or
                                             'neither Z@Y@X nor its transpose X.T@Y.T@Z.T'))
    else:
        mats = {}
    ap = m.func('mininec.Rotation_Matrix.apply')
    rets = [r_ for r_ in walk_no_nested(ap.node) if isinstance(r_, ast.Return) and r_.value is not None]
    ok = bool(rets)
    forms = []
    for r_ in rets:
        v = r_.value
        t = norm(v)
        good = False
        # M @ v  (forward matrix on the left) ; v @ Mt (transpose on the right) ; dot forms
        if isinstance(v, ast.BinOp) and isinstance(v.op, ast.MatMult):
            l_, r2 = norm(v.left), norm(v.right)
            if mats.get(l_) == 'forward' or l_ == 'self.m':
                good = True
            elif mats.get(r2) == 'transpose' or r2 == 'self.m.T':
                good = True
        elif isinstance(v, ast.Call) and (dotted(v.func) or '') in ('np.dot', 'np.matmul') and len(v.args) == 2:
            good = norm(v.args[0]) == 'self.m' or norm(v.args[1]) == 'self.m.T'
        elif isinstance(v, ast.Call) and norm(v.func) == 'self.m.dot':
            good = True
        forms.append(t)
        ok = ok and good
    ck.ob('R-LIT.rotation', 'apply', ok, ap.loc(), 'apply(vec) returns %s' % forms)

    # ---------------------------------------------------------------- D2
    expect = {
        ('Wire', 'rotate'): (['self.p1', 'self.p2'], 'rmatrix'),
        ('Wire', 'translate'): (['self.p1', 'self.p2'], 'translation'),
        ('Wire', 'scale'): (['self.p1', 'self.p2', 'self._r'], 'factor'),
        ('Curve', 'rotate'): (['self.segends'], 'rmatrix'),
        ('Curve', 'translate'): (['self.segends'], 'translation'),
        ('Curve', 'scale'): (['self.segends', 'self._r'], 'factor'),
    }
    # decided on the symbolic walk with effects (private helpers, lambdas and bound methods handed
    # to them are resolved): the value every geometric attribute holds at the end of each path
    from ..symx import SymExec
    from ..poly import poly_roles, cancel, Poly
    for (cls, op), (attrs, param) in sorted(expect.items()):
        g = m.func('mininec.%s.%s' % (cls, op))
        cache_fn = m.resolve_method(cls, 'compute_endpoints')
        paths = [p_ for p_ in SymExec(ctx, g, effects=True, max_paths=2000,
                                      no_expand={cache_fn.qual} if cache_fn is not None else ()).run() if p_.end != 'raise']
        miss, wrong, extra = [], [], []
        if not paths:
            wrong.append('no path returns normally')
        for p_ in paths:
            final = {}
            order = {}
            for i_, ev in enumerate(p_.events):
                if ev[0] == 'store' and ev[1].startswith('self.') and '[' not in ev[1]:
                    final[ev[1]] = ev[2]
                    order[ev[1]] = i_
            for k in attrs:
                if k not in final:
                    if k not in miss:
                        miss.append(k)
                    continue
                v = final[k]
                txt = norm(v)
                good = False
                if op == 'rotate':
                    good = txt == '%s.apply(%s)' % (param, k) or \
                        (k == 'self.segends' and txt in ('%s.apply(self.segends.T).T' % param, '(%s.m @ self.segends.T).T' % param,
                                                         'self.segends @ %s.m.T' % param))
                    if not good and isinstance(v, ast.Call) and norm(v.func) == '%s.apply' % param and \
                       any(isinstance(x_, ast.Attribute) and norm(x_) == k for a_ in v.args for x_ in ast.walk(a_)):
                        good = True
                    if not good and param in txt and k in txt and '.apply(' in txt:
                        good = True
                else:
                    try:
                        pol = cancel(poly_roles(v, {}))
                        kk = Poly.var(k.split('.')[-1])
                        pp = Poly.var(param)
                        good = cancel(pol - (kk * pp if op == 'scale' else kk + pp)).t == {}
                    except (ValueError, ZeroDivisionError):
                        good = False
                if not good:
                    w_ = '%s = %s is not %s' % (k, txt[:60], {'rotate': 'the rotated old value', 'scale': 'old * factor',
                                                              'translate': 'old + translation'}[op])
                    if w_ not in wrong:
                        wrong.append(w_)
            for k in final:
                if k not in attrs and k not in extra:
                    extra.append(k)
            if cls == 'Wire':
                rec = [i_ for i_, ev in enumerate(p_.events) if ev[0] == 'call' and norm(ev[1].func) == 'self.compute_endpoints']
                if len(rec) != 1 or any(order[k] > rec[0] for k in attrs if k in order):
                    if 'end-point cache not recomputed after the update' not in wrong:
                        wrong.append('end-point cache not recomputed after the update')
        ok = not miss and not wrong and not extra
        ck.ob('R-SIB.transform', g.qual, ok, g.loc(),
              'updates %s with %s on %d paths' % (sorted(attrs), param, len(paths)) if ok else
              'missing %s wrong %s extra %s' % (miss, wrong, extra))
    # geometric attributes of the classes: constructor assigns exactly the point attributes above
    wi = m.func('mininec.Wire.__init__')
    pts = sorted(norm(s.targets[0]) for s in wi.body() if isinstance(s, ast.Assign) and
                 isinstance(s.value, ast.Call) and (dotted(s.value.func) or '').endswith('array'))
    ck.ob('R-SIB.transform', 'Wire|point-attributes', pts == ['self.p1', 'self.p2'], wi.loc(),
          'Wire stores its geometry in %s' % pts)
    for cname in ('Arc', 'Helix'):
        ci = m.func('mininec.%s.__init__' % cname)
        arrs = sorted(norm(s.targets[0]) for s in ci.body() if isinstance(s, ast.Assign) and
                      isinstance(s.targets[0], ast.Attribute) and isinstance(s.value, ast.Call) and
                      (dotted(s.value.func) or '').endswith('array'))
        ck.ob('R-SIB.transform', '%s|point-attributes' % cname, arrs == ['self.segends'], ci.loc(),
              '%s stores its geometry in %s' % (cname, arrs))
        # subclasses must not override the transformations
        own = [op for op in ('rotate', 'translate', 'scale') if op in m.cls(cname).methods]
        ck.ob('R-SIB.transform', '%s|inherits-transforms' % cname, not own, ci.loc(),
              '%s inherits rotate/translate/scale from Curve' % cname if not own else 'overrides %s' % own)
    # dispatchers: the operation is applied to every object (tag None) or to by_tag[tag]
    from ..rules import self_closure
    for op, arg in (('rotate', 'rmatrix'), ('translate', 'translation'), ('scale', 'factor')):
        g = m.func('mininec.Geo_Container.%s' % op)
        cl = self_closure(ctx, g)
        calls_ = [c for c in walk_no_nested(g.node) if isinstance(c, ast.Call) and isinstance(c.func, ast.Attribute)
                  and c.func.attr == op and [norm(a) for a in c.args] == [arg]
                  and norm(c.func.value) not in ('self',)]
        txt_all = ' ; '.join(norm(x.node) for x in cl)
        has_lookup = 'self.by_tag[tag]' in txt_all
        has_all = any(isinstance(l, ast.For) and norm(l.iter) == 'self' for x in cl for l in loops_in(x.node)) or \
            any(isinstance(r_, ast.Return) and norm(r_.value) == 'self' for x in cl for r_ in walk_no_nested(x.node))
        has_test = 'tag is None' in txt_all or 'tag is not None' in txt_all
        ok = bool(calls_) and has_lookup and has_all and has_test
        # every receiver is the loop variable of a loop over the selected objects, or by_tag[tag]
        for c in calls_:
            rv = c.func.value
            if norm(rv) == 'self.by_tag[tag]':
                continue
            lp = parent(c)
            while lp is not None and not isinstance(lp, ast.For):
                lp = parent(lp)
            ok = ok and lp is not None and isinstance(rv, ast.Name) and norm(lp.target) == rv.id
        ck.ob('R-SIB.dispatch', g.qual, ok, g.loc(), 'tag None -> every object, else by_tag[tag]')
    g = m.func('mininec.Geo_Container.rotate')
    ok = any(norm(s) == 'rmatrix = Rotation_Matrix(rotation)' for s in g.body())
    ck.ob('R-SIB.dispatch', g.qual + '|matrix', ok, g.loc(), 'one Rotation_Matrix(rotation) shared by all objects')

    # ---------------------------------------------------------------- D3
    mainf = m.func('mininec.main')
    mfl = ctx.flow(mainf)
    cfg = mfl.cfg

    def first_node(pred):
        ns = [n for n in cfg.nodes if n.stmt is not None and n.id in cfg.reach and pred(n)]
        return ns

    tags = first_node(lambda n: n.kind == 'stmt' and 'geo.compute_tags()' == norm(n.stmt))
    apply_loop = [l for l in loops_in(mainf.node) if isinstance(l, ast.For) and norm(l.iter).startswith('sorted(geo_transforms')]
    scale_calls = calls_in(mainf.node, attr='scale')
    ctor = [c for c in calls_in(mainf.node, name='Mininec')]
    taper_set = first_node(lambda n: n.kind == 'stmt' and isinstance(n.stmt, ast.Assign) and
                           norm(n.stmt.targets[0]).endswith('.segtype'))
    ok = len(tags) == 1 and len(apply_loop) == 1 and len(scale_calls) == 1 and len(ctor) == 1 and len(taper_set) == 1
    ck.ob('R-ORDER.main', 'anchors', ok, mainf.loc(),
          'compute_tags %d, transform loop %d, geo.scale %d, taper %d, Mininec(...) %d'
          % (len(tags), len(apply_loop), len(scale_calls), len(taper_set), len(ctor)))
    if ok:
        seq = [('compute_tags', tags[0].id), ('apply transforms', cfg.node_of(apply_loop[0])),
               ('scale', mfl.node_id_of(scale_calls[0])), ('taper', taper_set[0].id),
               ('Mininec()', mfl.node_id_of(ctor[0]))]
        # "a before b": b cannot execute before a has been passed, and b (a loop body statement)
        # cannot be followed by a again
        for (na, ia), (nb, ib) in zip(seq, seq[1:]):
            before = cfg.must_pass(ib, {ia}) if na in ('compute_tags',) else True
            # b never precedes a: a not reachable from b
            back = ia in cfg.reachable_from(ib)
            ck.ob('R-ORDER.main', '%s<%s' % (na, nb), before and not back, mainf.loc(cfg.nodes[ib].stmt),
                  '%s happens before %s on every path' % (na, nb))
        key = apply_loop[0].iter.keywords
        ok = len(key) == 1 and key[0].arg == 'key' and norm(key[0].value) == 'lambda x: x[0]'
        ck.ob('R-ORDER.main', 'sorted-by-key', ok, mainf.loc(apply_loop[0]), 'transformations applied in sort-key order')
        # each entry calls the container method it was recorded with, once per entry
        lp_ = apply_loop[0]
        eds = [e for e in prog.edges['mininec.main'] if e.kind == 'call' and
               e.callee.qual in ('mininec.Geo_Container.rotate', 'mininec.Geo_Container.translate') and
               lp_.lineno <= getattr(e.node, 'lineno', 0) <= lp_.end_lineno]
        nodes_ = {id(e.node) for e in eds}
        callees_ = {e.callee.qual for e in eds}
        ok = len(nodes_) == 1 and callees_ == {'mininec.Geo_Container.rotate', 'mininec.Geo_Container.translate'}
        cnt_ = None
        if ok:
            cn = eds[0].node
            cnt_ = loop_reaches_on_all_paths(mfl, lp_, lambda n: n.stmt is not None and any(x is cn for x in ast.walk(n.stmt)))
            ok = cnt_ == (1, 1) and len(cn.args) == 3
        ck.ob('R-ORDER.main', 'transform-call', ok, mainf.loc(lp_),
              'each recorded transformation calls its own container method once (%s, %s)' % (sorted(callees_), cnt_))

    # ---------------------------------------------------------------- D4
    from .C14 import check_f_setter
    check_f_setter(ctx, ck, rule='R-EFFECT.wavelength', with_resets=False)
    lits = []
    for g in m.all_funcs():
        for n in walk_no_nested(g.node):
            if isinstance(n, ast.Constant) and isinstance(n.value, float) and abs(n.value - 299.8) < 1e-9:
                lits.append(g.qual)
    ck.ob('R-EFFECT.wavelength', 'speed-of-light-literal', sorted(set(lits)) == ['mininec.Mininec.f@setter'],
          m.func('mininec.Mininec.f@setter').loc(), 'functions containing the literal 299.8: %s' % sorted(set(lits)))
    ck.undecided += ['invariance of impedances, currents and pattern to 5e-4 (numeric)']
