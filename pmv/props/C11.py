"""C11  Real ground changes only the far field.

Decided (structural, necessary conditions):
 D1 R-EFFECT  the closure of the solve pipeline (Mininec.compute) and of the geometry pipeline
              (segmentation, ground detection, connectivity) reads no attribute of a Medium,
              calls no Medium method, does not read Mininec.boundary, and uses Mininec.media
              (directly or through a parameter it is passed in) only in None/truth tests.
 D2 R-EFFECT  the far-field computation writes nothing that the solve pipeline reads
              (requesting a pattern over real ground cannot feed back into the currents).
 floor        the analysis does see the Medium reads of the far field (>= 5) - guards vacuity.
Not decided: convergence to ideal ground, medium splitting, far boundaries (numeric).
"""
import ast
from ..model import AnalysisError, walk_no_nested, parent, dotted, norm
from ..rules import forbidden_effects, unresolved_named, is_none_test_context, describe_path

SOLVE_ENTRIES = ['mininec.Mininec.compute']
GEO_ENTRIES = ['mininec.Geo_Container.compute_segments', 'mininec.Geo_Container.compute_ground',
               'mininec.Mininec.compute_connectivity']
FAR = 'mininec.Mininec.compute_far_field'


def medium_attrs(ctx):
    """attribute names assigned on self in class Medium (extracted, not hand-copied)"""
    prog = ctx.program
    ci = ctx.model.cls('Medium')
    names = set()
    for f in ci.methods.values():
        for n in walk_no_nested(f.node):
            if isinstance(n, ast.Attribute) and isinstance(n.ctx, ast.Store) and \
               isinstance(n.value, ast.Name) and n.value.id == 'self':
                names.add(n.attr)
    # set_next also writes next.boundary / next.prev
    return names


def media_param_uses_ok(ctx, func, pname, seen_funcs, bad, depth=0):
    """all loads of parameter pname in func are None/truth tests or are passed on to a callee
    where the same holds"""
    prog = ctx.program
    key = (func.qual, pname)
    if key in seen_funcs or depth > 6:
        return
    seen_funcs.add(key)
    for n in walk_no_nested(func.node):
        if isinstance(n, ast.Name) and n.id == pname and isinstance(n.ctx, ast.Load):
            if is_none_test_context(n):
                continue
            p = parent(n)
            if isinstance(p, ast.Call) and n in p.args:
                idx = p.args.index(n)
                env = prog.env[func.qual]
                gs = prog.callees(p, env, func)
                if not gs:
                    bad.append((func, n, 'passed to an unresolved call'))
                for g, bound in gs:
                    params = g.bound_params()
                    if idx < len(params):
                        media_param_uses_ok(ctx, g, params[idx], seen_funcs, bad, depth + 1)
                continue
            bad.append((func, n, 'used as a value: %s' % norm(enclosing(n))))


def enclosing(n):
    p = n
    while p is not None and not isinstance(p, ast.stmt):
        p = parent(p)
    return p if p is not None else n


def run(ctx, ck):
    prog = ctx.program
    m = ctx.model
    ck.rule('R-EFFECT.no-medium-read', 'closure of the solve/geometry pipeline reads no Medium attribute')
    ck.rule('R-EFFECT.no-medium-call', 'closure calls no Medium method')
    ck.rule('R-EFFECT.media-only-tested', 'Mininec.media is only tested for None/truth in the closure')
    ck.rule('R-EFFECT.farfield-no-feedback', 'far field writes nothing the solve pipeline reads')
    mattrs = medium_attrs(ctx)
    ck.info('medium_attributes', sorted(mattrs))
    if len(mattrs) < 8:
        raise AnalysisError('Medium attribute extraction found only %d names' % len(mattrs))
    forbidden = {('Medium', a) for a in mattrs} | {('Medium', '*'), ('Mininec', 'boundary')}
    medium_funcs = {f.qual for f in m.cls('Medium').methods.values()}

    for label, entries in (('solve', SOLVE_ENTRIES), ('geometry', GEO_ENTRIES)):
        ents = [m.func(q) for q in entries]
        seen = prog.closure(ents)
        ck.info('closure_%s_functions' % label, len(seen))
        # --- D1a attribute reads
        offenders = forbidden_effects(prog, seen, forbidden)
        unres = unresolved_named(prog, seen, mattrs | {'boundary', 'media'})
        if unres:
            e = unres[0]
            raise AnalysisError(
                'unresolved receiver reads Medium-like attribute .%s in %s (%s): extend the seed '
                'type table' % (e.attr, e.func.qual, e.func.loc(e.node)))
        per_func = {}
        for e in offenders:
            per_func.setdefault(e.func.qual, []).append(e)
        for q in sorted(seen):
            es = per_func.get(q, [])
            ok = not es
            why = 'no Medium attribute touched'
            where = m.funcs[q].loc()
            if es:
                e = es[0]
                where = e.func.loc(e.node)
                why = '%s %s.%s via %s' % (e.mode, e.cls, e.attr, describe_path(prog, seen, q))
            ck.ob('R-EFFECT.no-medium-read', '%s|%s' % (label, q), ok, where, why)
        # --- D1b calls
        for q in sorted(seen):
            ok = q not in medium_funcs
            if not ok:
                ck.ob('R-EFFECT.no-medium-call', '%s|%s' % (label, q), False, m.funcs[q].loc(),
                      'Medium method reachable: ' + describe_path(prog, seen, q))
        ck.ob('R-EFFECT.no-medium-call', '%s|closure' % label,
              not (set(seen) & medium_funcs), m.func(entries[0]).loc(),
              'no Medium method in the closure of %d functions' % len(seen))
        # --- D1c uses of Mininec.media
        bad = []
        n_media_reads = 0
        for q in seen:
            f = m.funcs[q]
            for e in prog.effects.get(q, []):
                if (e.cls, e.attr) == ('Mininec', 'media') and e.mode == 'read':
                    n_media_reads += 1
                    node = e.node
                    if is_none_test_context(node):
                        continue
                    p = parent(node)
                    if isinstance(p, ast.Call) and node in p.args:
                        idx = p.args.index(node)
                        gs = prog.callees(p, prog.env[q], f)
                        if not gs:
                            bad.append((f, node, 'passed to an unresolved call'))
                        for g, bound in gs:
                            params = g.bound_params()
                            if idx < len(params):
                                media_param_uses_ok(ctx, g, params[idx], set(), bad)
                        continue
                    bad.append((f, node, 'used as a value: %s' % norm(enclosing(node))))
        ck.info('media_reads_in_%s_closure' % label, n_media_reads)
        for f, node, why in bad:
            ck.ob('R-EFFECT.media-only-tested', '%s|%s|%s' % (label, f.qual, norm(enclosing(node))),
                  False, f.loc(node), why)
        ck.ob('R-EFFECT.media-only-tested', '%s|closure' % label, not bad,
              m.func(entries[0]).loc(), '%d reads of Mininec.media, all None/truth tests'
              % n_media_reads)
        if label == 'solve':
            solve_seen = seen
        else:
            geo_seen = seen

    ck.floor('functions in solve closure', len(solve_seen), 35)

    # --- floor / positive control: the far field does read the media
    far = m.func(FAR)
    far_seen = prog.closure([far])
    far_reads = [e for e in forbidden_effects(prog, far_seen, forbidden) if e.mode == 'read']
    ck.floor('Medium reads resolved in far-field closure', len(far_reads), 5)
    ck.info('medium_readers', sorted({e.func.qual for q in prog.effects for e in prog.effects[q]
                                     if (e.cls, e.attr) in forbidden and e.cls == 'Medium'}))

    # --- D2 no feedback from the far field into the solve pipeline
    solve_reads = {(e.cls, e.attr) for q in solve_seen for e in prog.effects.get(q, [])
                   if e.mode in ('read', 'aug', 'subaug')}
    cache_classes = {'Pulse_Container'}        # memo sites, decided by R-CACHE in C14
    fb = []
    for q in far_seen:
        if q in solve_seen and q != FAR:
            continue        # shared helpers are judged through the solve closure
        for e in prog.effects.get(q, []):
            if e.mode == 'read' or e.cls == '?':
                continue
            if e.cls in cache_classes:
                continue
            if (e.cls, e.attr) in solve_reads:
                fb.append(e)
    for e in fb:
        ck.ob('R-EFFECT.farfield-no-feedback', '%s|%s.%s' % (e.func.qual, e.cls, e.attr), False,
              e.func.loc(e.node), 'far field %s %s.%s which the solve pipeline reads'
              % (e.mode, e.cls, e.attr))
    ck.ob('R-EFFECT.farfield-no-feedback', FAR + '|closure', not fb, far.loc(),
          'far-field closure (%d functions) writes only its own results' % len(far_seen))
    ck.undecided += ['convergence of the real-ground pattern to the ideal-ground pattern',
                     'invariance under medium splitting / far boundaries (numeric)']
