"""C13  Segmentation tiles each object; tapers, arcs, helices, transforms as documented.

Decided:
 D1 R-PAIR   exactly n segments / n+1 end points: each segmentation loop runs over range(n) (or
             over the generated pairs) and creates exactly one segment (end point, yielded pair)
             per iteration on every path; curves add the one closing point after the loop; the
             segment list is reset before it is filled; consecutive taper pairs share their point
             and the last pair ends at p2 itself.
 D2 R-SIB    one-sided taper from the other end = taper of the swapped end points, reversed and
             swapped back; compute_taper1_segments passes end = segtype - 1.
 D3          transformations refuse to run after segmentation (assert); scale multiplies the
             radius (shared with C05).
Not decided: growth ratio <= 2.1, min/max limits, on-curve placement, uniform angles (numeric).
"""
import ast
from ..model import AnalysisError, walk_no_nested, norm, dotted, parent
from ..rules import loops_in, loop_reaches_on_all_paths, assigns_to_attr, first_touch_is_plain_assign


def is_append_to(n, target):
    s = n.stmt
    return n.kind == 'stmt' and isinstance(s, ast.Expr) and isinstance(s.value, ast.Call) and \
        isinstance(s.value.func, ast.Attribute) and s.value.func.attr == 'append' and \
        norm(s.value.func.value) == target


def has_yield(n):
    return n.stmt is not None and n.kind == 'stmt' and any(isinstance(x, ast.Yield) for x in ast.walk(n.stmt))


def run(ctx, ck):
    m = ctx.model
    ck.rule('R-PAIR.one-per-iteration', 'segmentation loop over n creates exactly one segment per iteration')
    ck.rule('R-PAIR.closing-point', 'curves: n points in the loop + one closing end point')
    ck.rule('R-FRESH.segments', 'segment list reset before being filled')
    ck.rule('R-PAIR.chain', 'consecutive segments share their end point; last ends at p2')
    ck.rule('R-SIB.taper-mirror', 'taper from end 2 = mirrored taper from end 1')
    ck.rule('R-ASSERT.not-segmented', 'transformations assert that the object is not yet segmented')

    # ---------------------------------------------------------------- equal segmentation
    f = m.func('mininec.Wire.compute_equal_segments')
    fl = ctx.flow(f)
    ls = [l for l in loops_in(f.node) if isinstance(l, ast.For)]
    ck.floor('loops in compute_equal_segments', len(ls), 1)
    l = ls[0]
    mn, mx = loop_reaches_on_all_paths(fl, l, lambda n: is_append_to(n, 'self.segments'))
    ck.ob('R-PAIR.one-per-iteration', f.qual, norm(l.iter) == 'range(self.n_segments)' and (mn, mx) == (1, 1),
          f.loc(l), 'for %s in %s: appends min %s max %s' % (norm(l.target), norm(l.iter), mn, mx))
    # chain: Segment(s0, s1,...) then s0 = s1
    app = [c for c in walk_no_nested(l) if isinstance(c, ast.Call) and isinstance(c.func, ast.Name)
           and c.func.id == 'Segment']
    ok = len(app) == 1
    if ok:
        a0, a1 = norm(app[0].args[0]), norm(app[0].args[1])
        ok = any(isinstance(s, ast.Assign) and norm(s.targets[0]) == a0 and norm(s.value) == a1
                 for s in l.body)
        # first segment starts at p1
        d = fl.def_exprs(a0, fl.cfg.node_of(l))
        body_ids = fl.cfg.loops[fl.cfg.node_of(l)][0]
        starts = [norm(fl.inline(x[1], x[2])) for x in d if x[0] == 'assign' and x[2] not in body_ids]
        ok = ok and starts == ['np.copy(self.p1)']
    ck.ob('R-PAIR.chain', f.qual, ok, f.loc(l), 'segment k starts where segment k-1 ended; first starts at p1')

    cs = m.func('mininec.Wire.compute_segments')
    cfl = ctx.flow(cs)
    resets = assigns_to_attr(cs, 'self.segments')
    ok = len(resets) == 1 and norm(resets[0].value) == '[]'
    if ok:
        rid = cfl.node_id_of(resets[0])
        for name in ('compute_equal_segments', 'compute_taper1_segments', 'compute_taper2_segments'):
            for c in walk_no_nested(cs.node):
                if isinstance(c, ast.Call) and isinstance(c.func, ast.Attribute) and c.func.attr == name:
                    ok = ok and cfl.cfg.must_pass(cfl.node_id_of(c), {rid})
    ck.ob('R-FRESH.segments', cs.qual, ok, cs.loc(), 'self.segments = [] dominates every segmentation call')
    # fallback: taper failure -> equal segments with an empty list
    n_fb = 0
    for h in [x for x in walk_no_nested(cs.node) if isinstance(x, ast.ExceptHandler)]:
        txt = [norm(s) for s in h.body]
        ok = 'self.segtype = 0' in txt and 'self.compute_equal_segments()' in txt and \
            norm(h.type) == 'Taper_Error'
        ck.ob('R-FRESH.segments', '%s|fallback#%d' % (cs.qual, n_fb), ok, cs.loc(h),
              'Taper_Error falls back to equal segmentation: %s' % txt)
        n_fb += 1
    ck.floor('taper fallbacks', n_fb, 1)

    # ---------------------------------------------------------------- curves
    for q in ('mininec.Arc.__init__', 'mininec.Helix.__init__'):
        g = m.func(q)
        gfl = ctx.flow(g)
        ls = [l for l in loops_in(g.node) if isinstance(l, ast.For)]
        ok = len(ls) == 1 and norm(ls[0].iter) == 'range(n_segments)'
        cnt = None
        if ok:
            cnt = loop_reaches_on_all_paths(gfl, ls[0], lambda n: is_append_to(n, 'segends'))
            ok = cnt == (1, 1)
        ck.ob('R-PAIR.one-per-iteration', q, ok, g.loc(ls[0] if ls else None),
              'one end point per iteration of range(n_segments): %s' % (cnt,))
        # exactly one append after the loop, then self.segends = np.array(segends)
        after = []
        if ls:
            body = g.body()
            i = body.index(ls[0])
            after = body[i + 1:]
        napp = sum(1 for s in after if isinstance(s, ast.Expr) and isinstance(s.value, ast.Call) and
                   isinstance(s.value.func, ast.Attribute) and s.value.func.attr == 'append' and
                   norm(s.value.func.value) == 'segends')
        fin = assigns_to_attr(g, 'self.segends')
        init_ok = any(isinstance(s, ast.Assign) and norm(s.targets[0]) == 'segends' and norm(s.value) == '[]'
                      for s in g.body())
        ck.ob('R-PAIR.closing-point', q, napp == 1 and len(fin) == 1 and
              norm(fin[0].value) == 'np.array(segends)' and init_ok, g.loc(),
              '%d closing point(s) appended after the loop; self.segends = np.array(segends)' % napp)
        ns = assigns_to_attr(g, 'self.n_segments')
        ck.ob('R-PAIR.one-per-iteration', q + '|n_segments', len(ns) == 1 and norm(ns[0].value) == 'n_segments',
              g.loc(), 'self.n_segments is the requested count')
    # closing point == the loop formula evaluated at the end of the curve (i = n_segments):
    # symbolic substitution of the loop's own statements, compared with the statements after the loop
    from ..poly import poly_atoms, single_atom, subst_names, Poly
    for q in ('mininec.Arc.__init__', 'mininec.Helix.__init__'):
        g = m.func(q)
        ls = [l for l in loops_in(g.node) if isinstance(l, ast.For)]
        if len(ls) != 1 or not isinstance(ls[0].target, ast.Name):
            continue
        l = ls[0]
        body = g.body()
        after = body[body.index(l) + 1:]
        post = []
        for st in after:
            post.append(st)
            if isinstance(st, ast.Expr) and 'segends.append' in norm(st):
                break
        post_targets = {t.id for st in post for n_ in ast.walk(st) if isinstance(n_, ast.Assign)
                        for t in n_.targets if isinstance(t, ast.Name)}
        env = {l.target.id: ast.Name(id='n_segments', ctx=ast.Load())}
        atoms = {}

        def transform(stmts):
            out = []
            for st in stmts:
                if isinstance(st, ast.Assign) and len(st.targets) == 1 and isinstance(st.targets[0], ast.Name):
                    v = st.targets[0].id
                    if v not in post_targets:
                        try:
                            pv = poly_atoms(st.value, env, atoms)
                            at = single_atom(pv, atoms)
                        except Exception:
                            at = None
                        env[v] = at if at is not None else subst_names(st.value, env)
                        continue
                    out.append(norm(ast.Assign(targets=st.targets, value=subst_names(st.value, env), lineno=0)))
                elif isinstance(st, ast.If):
                    out.append('if %s: %s' % (norm(subst_names(st.test, env)), ' ; '.join(transform(st.body))))
                    if st.orelse:
                        out.append('else: %s' % ' ; '.join(transform(st.orelse)))
                else:
                    out.append(norm(subst_names(st, env)))
            return out
        expected = transform(l.body)

        def plain(stmts):
            out = []
            for st in stmts:
                if isinstance(st, ast.If):
                    out.append('if %s: %s' % (norm(st.test), ' ; '.join(plain(st.body))))
                    if st.orelse:
                        out.append('else: %s' % ' ; '.join(plain(st.orelse)))
                else:
                    out.append(norm(st))
            return out
        actual = plain(post)
        ok = expected == actual
        diff = [(e_, a_) for e_, a_ in zip(expected, actual) if e_ != a_]
        ck.ob('R-SIB.closing-point', q, ok, g.loc(post[0] if post else l),
              'closing end point = loop formula at i = n_segments (%d statements)' % len(actual) if ok else
              'closing end point differs from the loop formula at the end of the curve: expected `%s`, found `%s`'
              % (diff[0] if diff else (expected, actual)))
    ck.rule('R-SIB.closing-point', 'closing end point of a curve = its loop formula at i = n_segments')
    # segment ends lie on the specified circle / elliptical helix at uniform angular steps
    # (polynomial identities with sin^2 = 1 - cos^2; angle linear in the loop index)
    from ..poly import poly_sym, reduce_trig, cancel
    ck.rule('R-POLY.on-curve', 'arc / helix end points satisfy the curve equation; angle is linear in the index')

    def trig_resolver(e):
        if isinstance(e, ast.Call) and len(e.args) == 1 and (dotted(e.func) or '') in ('np.cos', 'np.sin'):
            return Poly.var(('c:' if e.func.attr == 'cos' else 's:') + norm(e.args[0]))
        return None
    # Arc: every appended point [x, y, z]: x^2 + z^2 = radius^2, y = 0
    g = m.func('mininec.Arc.__init__')
    pts = [c.args[0] for c in walk_no_nested(g.node) if isinstance(c, ast.Call) and
           isinstance(c.func, ast.Attribute) and c.func.attr == 'append' and norm(c.func.value) == 'segends'
           and c.args and isinstance(c.args[0], ast.List) and len(c.args[0].elts) == 3]
    ck.floor('arc point constructions', len(pts), 2)
    for i_, pt in enumerate(pts):
        try:
            x_, y_, z_ = [poly_sym(e_, {}, trig_resolver) for e_ in pt.elts]
            angs = {v[2:] for mono in (x_ * x_ + z_ * z_).t for v, e_ in mono if v.startswith(('c:', 's:'))}
            pairs = [('c:' + a_, 's:' + a_) for a_ in angs]
            lhs = reduce_trig(x_ * x_ + z_ * z_, pairs)
            ok = cancel(lhs - Poly.var('radius') * Poly.var('radius')).t == {} and y_.t == {}
            why = 'x^2 + z^2 = radius^2 and y = 0 for point %s' % norm(pt)
        except ValueError as e_:
            ok, why = False, str(e_)
        ck.ob('R-POLY.on-curve', 'mininec.Arc.__init__|point#%d' % i_, ok, g.loc(pt), why)
    # angle linear in i with step (a2 - a1) / n
    la = [s_ for l_ in loops_in(g.node) for s_ in l_.body if isinstance(s_, ast.Assign)
          and isinstance(s_.targets[0], ast.Name) and s_.targets[0].id == 'a']
    ok = len(la) == 1
    if ok:
        from ..dataflow import sum_terms, product_of
        terms = sum_terms(la[0].value)
        lin = [t for sg, t in terms if any(isinstance(x_, ast.Name) and x_.id == 'i' for x_ in ast.walk(t))]
        const = [t for sg, t in terms if t not in lin]
        ok = len(lin) == 1 and [norm(t) for t in const] == ['a1']
        if ok:
            pr = product_of(lin[0])
            nn, dd = pr.texts()
            ok = sorted(nn) == ['a2 - a1', 'i'] and dd == ['n_segments'] and pr.coef == 1
    ck.ob('R-POLY.on-curve', 'mininec.Arc.__init__|uniform-angle', ok, g.loc(la[0] if la else None),
          'angle = a1 + (a2 - a1) / n_segments * i')
    # Helix: (x/xm)^2 + (y/ym)^2 = 1 on both branches (length sign), inside the loop and for the closing point
    g = m.func('mininec.Helix.__init__')

    def helix_points(stmts, rx, ry):
        out = []
        cur = {}
        for st in stmts:
            if isinstance(st, ast.Assign) and isinstance(st.targets[0], ast.Name) and st.targets[0].id in ('x', 'y'):
                cur[st.targets[0].id] = st.value
            elif isinstance(st, ast.If):
                alt = dict(cur)
                for s2 in st.body:
                    if isinstance(s2, ast.Assign) and isinstance(s2.targets[0], ast.Name) and s2.targets[0].id in ('x', 'y'):
                        alt[s2.targets[0].id] = s2.value
                out.append((norm(st.test), alt, rx, ry))
        out.append(('default', cur, rx, ry))
        return out
    hl = [l_ for l_ in loops_in(g.node) if isinstance(l_, ast.For)]
    cases = []
    if hl:
        cases += helix_points(hl[0].body, 'xm', 'ym')
        body = g.body()
        cases += helix_points(body[body.index(hl[0]) + 1:], 'rx2', 'ry2')
    ck.floor('helix point cases', len(cases), 4)
    for i_, (cond, vals, rx, ry) in enumerate(cases):
        try:
            x_ = poly_sym(vals['x'], {}, trig_resolver)
            y_ = poly_sym(vals['y'], {}, trig_resolver)
            RX, RY = Poly.var(rx), Poly.var(ry)
            lhs = x_ * x_ * RY * RY + y_ * y_ * RX * RX
            angs = {v[2:] for mono in lhs.t for v, e_ in mono if v.startswith(('c:', 's:'))}
            pairs = [('c:' + a_, 's:' + a_) for a_ in angs]
            ok = cancel(reduce_trig(lhs, pairs) - RX * RX * RY * RY).t == {}
            why = '(x/%s)^2 + (y/%s)^2 = 1 on branch `%s`' % (rx, ry, cond)
        except (ValueError, KeyError) as e_:
            ok, why = False, 'point not understood: %s' % e_
        ck.ob('R-POLY.on-curve', 'mininec.Helix.__init__|%s|%s' % ('loop' if rx == 'xm' else 'closing', cond), ok, g.loc(), why)
    cc = m.func('mininec.Curve.compute_segments')
    cfl2 = ctx.flow(cc)
    ls = [l for l in loops_in(cc.node) if isinstance(l, ast.For)]
    ok = len(ls) == 1 and norm(ls[0].iter) == 'pairwise(self.segends)'
    cnt = None
    if ok:
        cnt = loop_reaches_on_all_paths(cfl2, ls[0], lambda n: is_append_to(n, 'self.segments'))
        ok = cnt == (1, 1)
        call = [c for c in walk_no_nested(ls[0]) if isinstance(c, ast.Call) and isinstance(c.func, ast.Name)
                and c.func.id == 'Segment']
        t = ls[0].target
        ok = ok and len(call) == 1 and isinstance(t, ast.Tuple) and \
            [norm(a) for a in call[0].args[:2]] == [norm(e) for e in t.elts]
    ck.ob('R-PAIR.one-per-iteration', cc.qual, ok, cc.loc(), 'one segment per consecutive pair of end points: %s' % (cnt,))
    n_upd, bad, n_plain = first_touch_is_plain_assign(cfl2, 'self.segments')
    ck.ob('R-FRESH.segments', cc.qual, n_upd >= 1 and not bad and n_plain >= 1, cc.loc(),
          'self.segments reset before the appends')

    # ---------------------------------------------------------------- tapers
    for q in ('taper.taper1', 'taper.taper2'):
        g = m.func(q)
        gfl = ctx.flow(g)
        ls = [l for l in loops_in(g.node) if isinstance(l, ast.For) and norm(l.iter) == 'range(n)'
              and any(isinstance(x, ast.Yield) for x in ast.walk(l))]
        ck.floor('yielding loops in ' + q, len(ls), 1)
        l = ls[-1]
        cnt = loop_reaches_on_all_paths(gfl, l, has_yield)
        ck.ob('R-PAIR.one-per-iteration', q, cnt == (1, 1), g.loc(l),
              'exactly one pair yielded per iteration of range(n): %s' % (cnt,))
        ys = [y for y in ast.walk(l) if isinstance(y, ast.Yield)]
        lv = l.target.id if isinstance(l.target, ast.Name) else '?'
        # last pair ends at p2; others at p + inc; then p = p + inc
        last = [y for y in ys if isinstance(y.value, ast.Tuple) and norm(y.value.elts[1]) == 'p2']
        other = [y for y in ys if y not in last]
        step = [s for s in l.body if isinstance(s, ast.Assign) and norm(s.targets[0]) == 'p']
        ok = len(last) == 1 and len(other) == 1 and len(step) == 1 and \
            norm(other[0].value.elts[1]) == norm(step[0].value) and \
            all(norm(y.value.elts[0]) == 'p' for y in ys)
        if ok:
            # the p2 branch is taken exactly for i == n-1
            p = parent(parent(last[0]))
            ok = isinstance(p, ast.If) and norm(p.test) in ('%s == n - 1' % lv, 'i == n - 1')
        # start point p = p1 before the loop
        body_ids = gfl.cfg.loops[gfl.cfg.node_of(l)][0]
        d = [x for x in gfl.def_exprs('p', gfl.cfg.node_of(l)) if x[0] == 'assign' and x[2] not in body_ids]
        ok = ok and [norm(x[1]) for x in d] == ['p1']
        ck.ob('R-PAIR.chain', q, ok, g.loc(l), 'pairs (p, p+inc) chain from p1; the last pair is (p, p2)')
    for q, gen in (('mininec.Wire.compute_taper1_segments', 'taper1'),
                   ('mininec.Wire.compute_taper2_segments', 'taper2')):
        g = m.func(q)
        gfl = ctx.flow(g)
        ls = [l for l in loops_in(g.node) if isinstance(l, ast.For)]
        ok = len(ls) == 1 and isinstance(ls[0].iter, ast.Call) and norm(ls[0].iter.func) == gen
        cnt = None
        if ok:
            cnt = loop_reaches_on_all_paths(gfl, ls[0], lambda n: is_append_to(n, 'self.segments'))
            args = [norm(a) for a in ls[0].iter.args]
            ok = cnt == (1, 1) and args == ['self.p1', 'self.p2', 'self.n_segments', 'self.r']
        ck.ob('R-PAIR.one-per-iteration', q, ok, g.loc(), 'one segment per generated pair of %s(p1, p2, n, r): %s' % (gen, cnt))

    # ---------------------------------------------------------------- D2 mirror
    t1 = m.func('taper.taper1')
    br = [n for n in t1.body() if isinstance(n, ast.If) and norm(n.test) == 'end']
    ok = len(br) == 1
    why = 'no `if end:` branch'
    if ok:
        b = br[0].body
        txt = [norm(s) for s in b]
        rec = [c for c in ast.walk(br[0]) if isinstance(c, ast.Call) and isinstance(c.func, ast.Name)
               and c.func.id == 'taper1']
        ok = len(rec) == 1 and [norm(a) for a in rec[0].args[:2]] == ['p2', 'p1'] and \
            norm(rec[0].args[-1]) == '0' and [norm(a) for a in rec[0].args[2:6]] == ['n', 'r', 'min_t', 'max_t']
        loops = [x for x in b if isinstance(x, ast.For)]
        ok = ok and len(loops) == 1 and norm(loops[0].iter).startswith('reversed(')
        if ok:
            y = [z for z in ast.walk(loops[0]) if isinstance(z, ast.Yield)]
            tg = loops[0].target
            ok = len(y) == 1 and isinstance(tg, ast.Tuple) and \
                [norm(e) for e in y[0].value.elts] == [norm(tg.elts[1]), norm(tg.elts[0])]
        ok = ok and isinstance(b[-1], ast.Return)
        why = 'end != 0: %s' % txt
    ck.ob('R-SIB.taper-mirror', 'taper.taper1|mirror', ok, t1.loc(br[0] if br else None), why)
    g = m.func('mininec.Wire.compute_taper1_segments')
    ok = any('end=self.segtype - 1' in norm(s) for s in g.body())
    ck.ob('R-SIB.taper-mirror', g.qual + '|end=segtype-1', ok, g.loc(), 'taper end passed as segtype - 1')

    # ---------------------------------------------------------------- D3
    n = 0
    for cls in ('Wire', 'Curve'):
        for op in ('rotate', 'translate', 'scale'):
            g = m.func('mininec.%s.%s' % (cls, op))
            b = g.body()
            ok = bool(b) and isinstance(b[0], ast.Assert) and 'segments' in norm(b[0].test) and \
                norm(b[0].test).startswith('not ')
            ck.ob('R-ASSERT.not-segmented', g.qual, ok, g.loc(), 'first statement: %s' % (norm(b[0]) if b else '?'))
            n += 1
    ck.floor('transformation methods', n, 6)
    ck.undecided += ['growth ratio <= 2.1 and min/max segment limits of tapers', 'points on the circle / helix',
                     'uniform angular steps, handedness']
