"""Tiny multivariate polynomial algebra over opaque atoms (symbolic evaluation of source
expressions; nothing is executed)."""
import ast
from .model import norm, dotted

class Poly:
    """multivariate polynomial with numeric coefficients: {monomial(tuple of (var,exp)): coef}"""

    def __init__(self, terms=None):
        self.t = {k: v for k, v in (terms or {}).items() if v != 0}

    @staticmethod
    def const(c):
        return Poly({(): c})

    @staticmethod
    def var(v):
        return Poly({((v, 1),): 1})

    def __add__(self, o):
        r = dict(self.t)
        for k, v in o.t.items():
            r[k] = r.get(k, 0) + v
        return Poly(r)

    def __neg__(self):
        return Poly({k: -v for k, v in self.t.items()})

    def __sub__(self, o):
        return self + (-o)

    def __mul__(self, o):
        r = {}
        for k1, v1 in self.t.items():
            for k2, v2 in o.t.items():
                d = dict(k1)
                for var, e in k2:
                    d[var] = d.get(var, 0) + e
                k = tuple(sorted(d.items()))
                r[k] = r.get(k, 0) + v1 * v2
        return Poly(r)

    def __eq__(self, o):
        return self.t == o.t

    def __repr__(self):
        if not self.t:
            return '0'
        return ' + '.join('%s%s' % (v if (v != 1 or not k) else '', '*'.join(
            '%s^%d' % (a, b) if b != 1 else a for a, b in k)) for k, v in sorted(self.t.items()))


def poly_of(e, env):
    if isinstance(e, ast.Constant) and isinstance(e.value, (int, float)) and not isinstance(e.value, bool):
        return Poly.const(e.value)
    if isinstance(e, ast.Name):
        if e.id in env:
            return env[e.id]
        return Poly.var(e.id)
    if isinstance(e, ast.Attribute) and isinstance(e.value, ast.Name) and e.value.id == 'self':
        k = 'self.' + e.attr
        if k in env:
            return env[k]
        return Poly.var(k)
    if isinstance(e, ast.BinOp):
        a, b = poly_of(e.left, env), poly_of(e.right, env)
        if isinstance(e.op, ast.Add):
            return a + b
        if isinstance(e.op, ast.Sub):
            return a - b
        if isinstance(e.op, ast.Mult):
            return a * b
    if isinstance(e, ast.UnaryOp) and isinstance(e.op, ast.USub):
        return -poly_of(e.operand, env)
    raise ValueError('not polynomial: %s' % norm(e))


def coef_list(e, env):
    """[Poly] of a tuple / list / np.array([...]) literal"""
    if isinstance(e, ast.Call) and (dotted(e.func) or '').endswith('array') and e.args:
        e = e.args[0]
    if isinstance(e, (ast.Tuple, ast.List)):
        return [poly_of(x, env) for x in e.elts]
    raise ValueError('not a coefficient list: %s' % norm(e))


def ratio_equal(b, a, num, den):
    """b(s)/a(s) == num(s)/den(s) as polynomial identities: b*den == num*a (lists by power of s)"""
    def conv(x, y):
        r = [Poly() for _ in range(len(x) + len(y) - 1)]
        for i, p in enumerate(x):
            for j, q in enumerate(y):
                r[i + j] = r[i + j] + p * q
        return r
    l = conv(b, den)
    r = conv(num, a)
    n = max(len(l), len(r))
    l += [Poly()] * (n - len(l))
    r += [Poly()] * (n - len(r))
    return all(x == y for x, y in zip(l, r))




def poly_atoms(e, env, atoms):
    """like poly_of, but any sub-expression that is not + - * / of numbers and names becomes an
    opaque atom (keyed by its normalised text, remembered in `atoms`); X / Y is X * inv(Y) and
    inv(Y) * Y cancels for atomic Y"""
    if isinstance(e, ast.Constant) and isinstance(e.value, (int, float)) and not isinstance(e.value, bool):
        return Poly.const(e.value)
    if isinstance(e, ast.Name) and e.id in env:
        v = env[e.id]
        return v if isinstance(v, Poly) else poly_atoms(v, env, atoms)
    if isinstance(e, ast.BinOp) and isinstance(e.op, (ast.Add, ast.Sub, ast.Mult)):
        a, b = poly_atoms(e.left, env, atoms), poly_atoms(e.right, env, atoms)
        return a + b if isinstance(e.op, ast.Add) else (a - b if isinstance(e.op, ast.Sub) else a * b)
    if isinstance(e, ast.BinOp) and isinstance(e.op, ast.Div):
        a = poly_atoms(e.left, env, atoms)
        d = poly_atoms(e.right, env, atoms)
        # division by a single atom / constant only
        if len(d.t) == 1:
            (mono, coef), = d.t.items()
            inv = Poly({tuple(sorted((v, -ex) for v, ex in mono)): 1.0 / coef if coef != 1 else 1})
            return cancel(a * inv)
        k = 'atom:' + norm(e)
        atoms[k] = e
        return Poly.var(k)
    if isinstance(e, ast.UnaryOp) and isinstance(e.op, ast.USub):
        return -poly_atoms(e.operand, env, atoms)
    k = norm(subst_names(e, env))
    atoms[k] = subst_names(e, env)
    return Poly.var(k)


def cancel(p):
    """merge exponents of equal variables inside monomials (x^1 * x^-1 -> 1)"""
    out = {}
    for mono, coef in p.t.items():
        d = {}
        for v, ex in mono:
            d[v] = d.get(v, 0) + ex
        k = tuple(sorted((v, ex) for v, ex in d.items() if ex != 0))
        out[k] = out.get(k, 0) + coef
    return Poly(out)


def subst_names(e, env):
    """copy of e with Names replaced by the AST expressions in env (Poly values are skipped);
    nodes are rebuilt field by field (the `_parent` back links of the model are not followed)"""
    def cp(n):
        if isinstance(n, ast.Name) and isinstance(n.ctx, ast.Load):
            v = env.get(n.id)
            if isinstance(v, ast.AST):
                return v
        if not isinstance(n, ast.AST):
            return n
        new = n.__class__()
        for fld, val in ast.iter_fields(n):
            if isinstance(val, list):
                setattr(new, fld, [cp(x) for x in val])
            else:
                setattr(new, fld, cp(val))
        for a in ('lineno', 'col_offset', 'end_lineno', 'end_col_offset'):
            if hasattr(n, a):
                setattr(new, a, getattr(n, a))
        return new
    return cp(e)


def single_atom(p, atoms):
    """AST of p if it is one atom (coefficient 1, exponent 1) or a number, else None"""
    p = cancel(p)
    if not p.t:
        return ast.Constant(value=0)
    if len(p.t) == 1:
        (mono, coef), = p.t.items()
        if not mono:
            return ast.Constant(value=coef)
        if coef == 1 and len(mono) == 1 and mono[0][1] == 1:
            k = mono[0][0]
            if k in atoms:
                return atoms[k]
            return ast.Name(id=k, ctx=ast.Load())
    return None


def reduce_trig(p, pairs):
    """rewrite s^2 -> 1 - c^2 for every (c, s) variable pair until no s has exponent >= 2"""
    changed = True
    p = cancel(p)
    guard = 0
    while changed and guard < 50:
        guard += 1
        changed = False
        out = Poly()
        for mono, coef in p.t.items():
            d = dict(mono)
            hit = None
            for c, s_ in pairs:
                if d.get(s_, 0) >= 2:
                    hit = (c, s_)
                    break
            if hit is None:
                out = out + Poly({mono: coef})
                continue
            changed = True
            c, s_ = hit
            d[s_] -= 2
            base = Poly({tuple(sorted((v, e) for v, e in d.items() if e != 0)): coef})
            out = out + base * (Poly.const(1) - Poly.var(c) * Poly.var(c))
        p = cancel(out)
    return p


def poly_sym(e, env, resolve):
    """polynomial of an expression; `resolve(node)` may return a Poly for a sub-expression
    (e.g. cos(a) -> variable), else None"""
    r = resolve(e)
    if r is not None:
        return r
    if isinstance(e, ast.Constant) and isinstance(e.value, (int, float)) and not isinstance(e.value, bool):
        return Poly.const(e.value)
    if isinstance(e, ast.Name):
        if e.id in env:
            v = env[e.id]
            return v if isinstance(v, Poly) else poly_sym(v, env, resolve)
        return Poly.var(e.id)
    if isinstance(e, ast.UnaryOp) and isinstance(e.op, ast.USub):
        return -poly_sym(e.operand, env, resolve)
    if isinstance(e, ast.UnaryOp) and isinstance(e.op, ast.UAdd):
        return poly_sym(e.operand, env, resolve)
    if isinstance(e, ast.BinOp):
        if isinstance(e.op, ast.Pow) and isinstance(e.right, ast.Constant) and e.right.value == 2:
            a = poly_sym(e.left, env, resolve)
            return a * a
        a, b = poly_sym(e.left, env, resolve), poly_sym(e.right, env, resolve)
        if isinstance(e.op, ast.Add):
            return a + b
        if isinstance(e.op, ast.Sub):
            return a - b
        if isinstance(e.op, ast.Mult):
            return a * b
    raise ValueError('not polynomial: %s' % norm(e))


def poly_roles(e, env=None, depth=0):
    """Poly of an expression with atoms named by *role*: attribute chains are reduced to their last
    attribute (`ld.epsilon_r`, `geobj.coat_load.epsilon_r` -> epsilon_r), `np.x` -> x, calls become
    atoms `f(<poly of args>)`; division multiplies by the inverse atom.  Local names may be
    pre-resolved through env {name: AST}."""
    env = env or {}
    if depth > 20:
        raise ValueError('too deep')
    if isinstance(e, ast.Constant) and isinstance(e.value, (int, float, complex)) and not isinstance(e.value, bool):
        return Poly.const(e.value)
    if isinstance(e, ast.Name):
        if e.id in env:
            return poly_roles(env[e.id], env, depth + 1)
        return Poly.var(e.id)
    if isinstance(e, ast.Attribute):
        return Poly.var(e.attr)
    if isinstance(e, ast.UnaryOp) and isinstance(e.op, ast.USub):
        return -poly_roles(e.operand, env, depth + 1)
    if isinstance(e, ast.BinOp) and isinstance(e.op, (ast.Add, ast.Sub, ast.Mult)):
        a, b = poly_roles(e.left, env, depth + 1), poly_roles(e.right, env, depth + 1)
        return a + b if isinstance(e.op, ast.Add) else (a - b if isinstance(e.op, ast.Sub) else a * b)
    if isinstance(e, ast.BinOp) and isinstance(e.op, ast.Div):
        a = poly_roles(e.left, env, depth + 1)
        d = cancel(poly_roles(e.right, env, depth + 1))
        if len(d.t) == 1:
            (mono, coef), = d.t.items()
            return cancel(a * Poly({tuple(sorted((v, -ex) for v, ex in mono)): 1 / coef}))
        return cancel(a * Poly({(('inv[%r]' % d, 1),): 1}))
    if isinstance(e, ast.BinOp) and isinstance(e.op, ast.Pow) and isinstance(e.right, ast.Constant) \
            and isinstance(e.right.value, int) and 0 <= e.right.value <= 4:
        a = poly_roles(e.left, env, depth + 1)
        out = Poly.const(1)
        for _ in range(e.right.value):
            out = out * a
        return out
    if isinstance(e, ast.Call):
        fn = e.func.attr if isinstance(e.func, ast.Attribute) else (e.func.id if isinstance(e.func, ast.Name) else '?')
        args = ', '.join(repr(cancel(poly_roles(a, env, depth + 1))) for a in e.args)
        return Poly.var('%s(%s)' % (fn, args))
    if isinstance(e, ast.Subscript):
        return Poly.var('%s[%s]' % (repr(poly_roles(e.value, env, depth + 1)), norm(e.slice)))
    if isinstance(e, ast.BinOp) and isinstance(e.op, (ast.Mod, ast.FloorDiv)):
        # not polynomial: an atom over the (canonical) operands
        return Poly.var('%s(%r, %r)' % ('mod' if isinstance(e.op, ast.Mod) else 'floordiv',
                                        cancel(poly_roles(e.left, env, depth + 1)), cancel(poly_roles(e.right, env, depth + 1))))
    raise ValueError('not understood: %s' % norm(e))


def roles_of_text(text, env=None):
    return cancel(poly_roles(ast.parse(text, mode='eval').body, env or {}))
