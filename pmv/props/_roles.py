"""R-ROLE.self-term  quantities of one pulse in one closed-form term.

The potentials are evaluated for pairs (observing pulse, integrated pulse).  The pulse container hands out per-pair
arrays `matrix_<q>[role]` (role 0: observing, role 1: integrated pulse) and per-pulse arrays `<q>[pulse, half]`.
A closed-form term (the thin-wire self term `log(len / radius) - j w len / 2`) describes ONE segment: the length and
the radius that enter one expression belong to the same role.  Decided per function on the expression of every
statement with single-assignment locals written out; index names unpacked from `np.nonzero(sel)` / `np.where(sel)`
carry the role of their position."""
import ast
from ..model import norm, dotted, walk_no_nested
from ..rules import self_closure

QUANT = ('seg_len', 'radius')


def _single_defs(fnode):
    cnt = {}
    val = {}
    roles = {}
    for s in walk_no_nested(fnode):
        if isinstance(s, ast.Assign) and len(s.targets) == 1:
            t = s.targets[0]
            if isinstance(t, ast.Name):
                cnt[t.id] = cnt.get(t.id, 0) + 1
                val[t.id] = s.value
            elif isinstance(t, ast.Tuple) and all(isinstance(e, ast.Name) for e in t.elts):
                comp = s.value if isinstance(s.value, (ast.GeneratorExp, ast.ListComp)) and len(s.value.generators) == 1 \
                    and not s.value.generators[0].ifs and isinstance(s.value.generators[0].target, ast.Name) \
                    and isinstance(s.value.generators[0].iter, (ast.Tuple, ast.List)) \
                    and len(s.value.generators[0].iter.elts) == len(t.elts) else None
                for i, e in enumerate(t.elts):
                    cnt[e.id] = cnt.get(e.id, 0) + 1
                    if comp is not None:
                        # a, b = (f(m) for m in (A, B)):  a = f(A), b = f(B)
                        from ..symx import copy_replace
                        var, item = comp.generators[0].target.id, comp.generators[0].iter.elts[i]
                        val[e.id] = copy_replace(comp.elt, lambda n_, var=var, item=item: item
                                                 if isinstance(n_, ast.Name) and n_.id == var else None)
                    if isinstance(s.value, ast.Call) and (dotted(s.value.func) or '').split('.')[-1] in ('nonzero', 'where') \
                            and len(s.value.args) == 1 and len(t.elts) == 2:
                        roles[e.id] = i
        elif isinstance(s, (ast.AugAssign, ast.For)):
            for x in ast.walk(s.target):
                if isinstance(x, ast.Name):
                    cnt[x.id] = cnt.get(x.id, 0) + 2
    defs = {k: v for k, v in val.items() if cnt.get(k) == 1}
    roles = {k: v for k, v in roles.items() if cnt.get(k) == 1}
    return defs, roles


def _expand(e, defs, depth=0):
    from ..symx import copy_replace
    if depth > 5:
        return e
    return copy_replace(e, lambda n: _expand(defs[n.id], defs, depth + 1)
                        if isinstance(n, ast.Name) and isinstance(n.ctx, ast.Load) and n.id in defs else None)


def _atoms(e, roles):
    """[(quantity, role or None, text)] for per-pulse quantities in e (outermost subscript chains)"""
    out = []

    def chain(n):
        """(base attribute, [slices in application order, '.T' marks])"""
        ops = []
        while True:
            if isinstance(n, ast.Subscript):
                ops.append(n.slice)
                n = n.value
            elif isinstance(n, ast.Attribute) and n.attr == 'T':
                ops.append('T')
                n = n.value
            else:
                break
        return n, list(reversed(ops))
    seen = set()
    for n in ast.walk(e):
        if id(n) in seen or not isinstance(n, (ast.Subscript, ast.Attribute)):
            continue
        base, ops = chain(n)
        if not (isinstance(base, ast.Attribute) and norm(base.value).endswith('pulses')):
            continue
        for x in ast.walk(n):
            seen.add(id(x))
        q = base.attr
        role = None
        if q.startswith('matrix_') and q[7:] in QUANT:
            if ops and ops[0] != 'T' and isinstance(ops[0], ast.Constant) and ops[0].value in (0, 1):
                role = ops[0].value
            out.append((q[7:], role, norm(n)))
        elif q in QUANT:
            if ops and ops[0] != 'T':
                first = ops[0].elts[0] if isinstance(ops[0], ast.Tuple) and ops[0].elts else ops[0]
                if isinstance(first, ast.Name) and first.id in roles:
                    role = roles[first.id]
            out.append((q, role, norm(n)))
    return out


def check_self_term_roles(ctx, ck, rule='R-ROLE.self-term'):
    m = ctx.model
    funcs = {}
    for q in ('mininec.Mininec.scalar_potential', 'mininec.Mininec.vector_potential'):
        for g in self_closure(ctx, m.func(q)):
            funcs[g.qual] = g
    n = 0
    for q, g in sorted(funcs.items()):
        defs, roles = _single_defs(g.node)
        # `pulses = self.pulses` is the container itself, not a quantity: leave it written out by _expand
        for s in walk_no_nested(g.node):
            v = None
            if isinstance(s, (ast.Assign, ast.AugAssign, ast.Return)) and s.value is not None:
                v = s.value
            elif isinstance(s, ast.Expr):
                v = s.value
            if v is None:
                continue
            ats = [a for a in _atoms(_expand(v, defs), roles)]
            if len({a[0] for a in ats}) < 2:
                continue        # (one quantity only: nothing to combine)
            known = [a for a in ats if a[1] is not None]
            if len(known) < 2:
                continue
            n += 1
            rs = {a[1] for a in known}
            ck.ob(rule, '%s|%s' % (q, norm(s)[:60]), len(rs) == 1, g.loc(s),
                  'length and radius of the %s pulse' % ('integrated' if rs == {1} else 'observing') if len(rs) == 1 else
                  'one term combines %s: the length of one pulse with the radius of the other (they differ where '
                  'wires of different radius / segment length meet)' % ', '.join('%s (role %d)' % (a[2][:50], a[1]) for a in known))
    return n
