"""Distributed loads at junction pulses (Mininec.fix_distributed_loads), on the symbolic walk.

A pulse at a junction of two different wires of which exactly one carries a skin-effect / insulation load
must be attached to that load - whichever of the pulse's two segments lies on the loaded wire.  The paths
of the function (helpers, tables of (load, own load) rows looked through) are evaluated over the abstract
cases  kind in {coat_load, skin_load} x loaded side in {first, second segment}:  the tests passed on a
path are evaluated with "only that wire has that load, the pulse is not attached yet, the wires differ";
on the feasible paths register_load must be called once with the load of the loaded side.
"""
import ast
import re
from ..model import AnalysisError, norm
from ..symx import SymExec

FIX = 'mininec.Mininec.fix_distributed_loads'
KINDS = ('coat_load', 'skin_load')


class _Unknown(Exception):
    pass


def _value(e, env):
    """abstract value: True/False, or the text of an object expression"""
    if isinstance(e, ast.Constant):
        return e.value
    t = norm(e)
    if t in env:
        return env[t]
    if isinstance(e, ast.BoolOp):
        if isinstance(e.op, ast.And):
            v = True
            for x in e.values:
                v = _value(x, env)
                if not _truth(v):
                    return v
            return v
        v = False
        for x in e.values:
            v = _value(x, env)
            if _truth(v):
                return v
        return v
    if isinstance(e, ast.UnaryOp) and isinstance(e.op, ast.Not):
        return not _truth(_value(e.operand, env))
    if isinstance(e, ast.Compare) and len(e.ops) == 1:
        op = e.ops[0]
        if isinstance(op, (ast.In, ast.NotIn)):
            return isinstance(op, ast.NotIn)        # the pulse is not attached yet
        a, b = _value(e.left, env), _value(e.comparators[0], env)
        if isinstance(op, (ast.Eq, ast.Is)):
            return a == b
        if isinstance(op, (ast.NotEq, ast.IsNot)):
            return a != b
        raise _Unknown(t)
    if isinstance(e, ast.Call) and isinstance(e.func, ast.Name) and e.func.id == 'bool' and len(e.args) == 1:
        return _truth(_value(e.args[0], env))
    if isinstance(e, ast.IfExp):
        return _value(e.body if _truth(_value(e.test, env)) else e.orelse, env)
    if isinstance(e, (ast.Attribute, ast.Subscript, ast.Name)):
        return ('obj', t)
    raise _Unknown(t)


def _truth(v):
    if isinstance(v, tuple) and v and v[0] == 'obj':
        return True
    return bool(v)


def check_junction_loads(ctx, ck, rule='R-SYM.junction-loads'):
    m = ctx.model
    f = m.func(FIX)
    reg = m.func('mininec.Mininec.register_load')
    paths = [p for p in SymExec(ctx, f, bind_loops=True, effects=True, depth=3, max_paths=5000,
                                no_expand={reg.qual}).run() if p.end != 'raise']
    entered = [p for p in paths if any(k == 'loop' and t == 'self.pulses' for k, t in p.conds)]
    if not entered:
        raise AnalysisError('%s: no path enters the loop over self.pulses' % FIX)
    ks = set()
    for p in entered:
        for t, b in p.conds:
            ks |= set(re.findall(r'self\.pulses\[(_k\d+)\]', str(t)))
    bad = None
    n_cases = 0
    for kind in KINDS:
        for loaded in (0, 1):
            n_cases += 1
            okcase = False
            for p in entered:
                kk = sorted({k for t, b in p.conds for k in re.findall(r'self\.pulses\[(_k\d+)\]', str(t))})
                if len(kk) != 1:
                    continue
                P = 'self.pulses[%s]' % kk[0]
                side = ['%s.segs[%d].geobj' % (P, i) for i in (0, 1)]
                env = {}
                for i in (0, 1):
                    env[side[i]] = ('obj', side[i])
                    for k2 in KINDS:
                        env['%s.%s' % (side[i], k2)] = ('obj', '%s.%s' % (side[i], k2)) if (k2 == kind and i == loaded) else None
                try:
                    feasible = True
                    for t, b in p.conds:
                        if not isinstance(b, bool):
                            continue
                        e = ast.parse(t, mode='eval').body
                        if _truth(_value(e, env)) != b:
                            feasible = False
                            break
                    if not feasible:
                        continue
                    calls = [ev[1] for ev in p.events if ev[0] == 'call' and isinstance(ev[1], ast.Call) and
                             isinstance(ev[1].func, ast.Attribute) and ev[1].func.attr == 'register_load']
                    got = [_value(c.args[0], env) for c in calls if c.args]
                    idx = [norm(c.args[1]) if len(c.args) > 1 else '?' for c in calls]
                except (_Unknown, SyntaxError) as e_:
                    raise AnalysisError('%s: test not understood: %s' % (FIX, e_))
                want = ('obj', '%s.%s' % (side[loaded], kind))
                if got == [want] and idx == ['%s.idx' % P]:
                    okcase = True
                else:
                    bad = bad or ('only the wire of the pulse\'s %s segment has a %s: register_load is called with %s'
                                  % ('first' if loaded == 0 else 'second', kind.replace('_', ' '),
                                     [g_[1] if isinstance(g_, tuple) else g_ for g_ in got] or 'nothing'))
            if not okcase and bad is None:
                bad = 'no path handles: only the wire of the %s segment has a %s' % ('first' if loaded == 0 else 'second', kind)
    ck.floor('junction load cases (kind x loaded side)', n_cases, 4)
    ck.ob(rule, FIX, bad is None, f.loc(),
          'a junction pulse is attached to the distributed load of whichever of its two wires is loaded (4 cases)'
          if bad is None else bad)
