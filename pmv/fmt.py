"""Abstract evaluation of string-building writer functions.

A writer builds lines from %-formats.  `Template` = list of pieces:
   ('lit', text) | ('conv', spec, arg expr or None) | ('var', description, element template, sep)
   | ('unk', text of the expression)
`emissions(func)` enumerates paths through the writer (if-branches forked, loop bodies executed
once and marked) and returns [(Template, conditions, in_loop)] for every appended / returned line.
"""
import ast
import re
import itertools
from .model import norm, dotted, walk_no_nested, AnalysisError

CONV_RE = re.compile(r'%(?P<flags>[-+ #0]*)(?P<width>\*|\d+)?(?:\.(?P<prec>\*|\d+))?(?P<type>[diouxXeEfFgGcrsa%])')
MAX_PATHS = 512


def parse_format(text):
    """split a %-format string into pieces"""
    out = []
    pos = 0
    for mo in CONV_RE.finditer(text):
        if mo.start() > pos:
            out.append(('lit', text[pos:mo.start()]))
        if mo.group('type') == '%':
            out.append(('lit', '%'))
        else:
            out.append(('conv', mo.group(0), None))
        pos = mo.end()
    if pos < len(text):
        out.append(('lit', text[pos:]))
    return out


def merge_lits(pieces):
    out = []
    for p in pieces:
        if p[0] == 'lit' and out and out[-1][0] == 'lit':
            out[-1] = ('lit', out[-1][1] + p[1])
        elif p[0] == 'lit' and p[1] == '':
            continue
        else:
            out.append(p)
    return out


class TupleVal:
    """abstract tuple of argument expressions; ('star', expr) marks a part of unknown length"""

    def __init__(self, items):
        self.items = items


class ListVal:
    def __init__(self, items, open_=False):
        self.items = items      # list of Templates (each a list of pieces)
        self.open = open_       # appended to inside a loop -> repeated entries


def _copy_replace(n, target, repl):
    """field-wise copy of the AST n with the node `target` (by identity) replaced by `repl`"""
    if n is target:
        return repl
    if not isinstance(n, ast.AST):
        return n
    new = n.__class__()
    for fld, val in ast.iter_fields(n):
        if isinstance(val, list):
            setattr(new, fld, [_copy_replace(x, target, repl) for x in val])
        else:
            setattr(new, fld, _copy_replace(val, target, repl))
    for a in ('lineno', 'col_offset', 'end_lineno', 'end_col_offset'):
        if hasattr(n, a):
            setattr(new, a, getattr(n, a))
    return new


def _walk_stmt_exprs(st):
    """expression nodes evaluated by the simple statement st, outside lambdas / comprehensions"""
    todo = [st]
    while todo:
        n = todo.pop()
        yield n
        for c in ast.iter_child_nodes(n):
            if isinstance(c, (ast.Lambda, ast.GeneratorExp, ast.ListComp, ast.SetComp, ast.DictComp)):
                continue
            todo.append(c)


_PURE_CALLS = ('isinstance', 'len', 'bool', 'hasattr')


def _is_pure_test(e):
    for n in ast.walk(e):
        if isinstance(n, ast.Call):
            if not (isinstance(n.func, ast.Name) and n.func.id in _PURE_CALLS):
                return False
        elif isinstance(n, (ast.Lambda, ast.GeneratorExp, ast.ListComp, ast.NamedExpr, ast.Await, ast.Yield)):
            return False
    return True


class Evaluator:
    """ctx (optional) enables looking through helper methods: a call self.<helper>(...) whose
    value is a line, a tuple of values or a list of lines is evaluated in place (arguments
    substituted), each path of the helper becoming a path of the caller."""

    def __init__(self, func, ctx=None, depth=2, body=None):
        self.func = func
        self.ctx = ctx
        self.depth = depth
        self._body = body if body is not None else func.body()
        self._chosen = {}
        # locals assigned exactly once, outside loops, to a side-effect free test expression:
        # a later `if name:` is the test itself (boolean temporaries must not hide a guard)
        counts = {}
        in_loop = set()
        self.aliases = {}
        for st in self._body:
            for n in ast.walk(st):
                if isinstance(n, ast.Name) and isinstance(n.ctx, (ast.Store, ast.Del)):
                    counts[n.id] = counts.get(n.id, 0) + 1
                if isinstance(n, (ast.For, ast.While)):
                    for x in ast.walk(n):
                        if isinstance(x, ast.Name) and isinstance(x.ctx, ast.Store):
                            in_loop.add(x.id)
        self.multi = {k for k, v in counts.items() if v > 1} | in_loop
        self.stored_attrs = set()
        for st in self._body:
            for n in ast.walk(st):
                if isinstance(n, ast.Attribute) and isinstance(n.ctx, ast.Store):
                    self.stored_attrs.add(n.attr)
        for st in self._body:
            for n in ast.walk(st):
                if isinstance(n, ast.Assign) and len(n.targets) == 1 and isinstance(n.targets[0], ast.Name):
                    nm = n.targets[0].id
                    if nm not in self.multi and nm not in func.all_params and \
                       isinstance(n.value, (ast.Compare, ast.UnaryOp, ast.BoolOp)) and _is_pure_test(n.value):
                        self.aliases[nm] = n.value

    # ---------------------------------------------------------------- conditions
    def atoms(self, test, val, depth=0):
        """the test `test` having truth value `val` as a tuple of (text, bool) atoms"""
        if depth > 8:
            return ((norm(test), val),)
        if isinstance(test, ast.Name) and test.id in self.aliases:
            return self.atoms(self.aliases[test.id], val, depth + 1)
        if isinstance(test, ast.UnaryOp) and isinstance(test.op, ast.Not):
            return self.atoms(test.operand, not val, depth + 1)
        if isinstance(test, ast.BoolOp) and ((isinstance(test.op, ast.And) and val) or
                                             (isinstance(test.op, ast.Or) and not val)):
            out = ()
            for v in test.values:
                out += self.atoms(v, val, depth + 1)
            return out
        if isinstance(test, ast.BoolOp):
            # a compound that cannot be split: spell it with the aliases resolved
            parts = []
            for v in test.values:
                sub = self.atoms(v, True, depth + 1)
                parts.append(' and '.join(('%s' if b else 'not %s') % (t if ' ' not in t else '(%s)' % t)
                                          for t, b in sub))
            joiner = ' and ' if isinstance(test.op, ast.And) else ' or '
            return ((joiner.join(parts), val),)
        if isinstance(test, ast.Compare) and len(test.ops) == 1 and isinstance(test.ops[0], (ast.IsNot, ast.NotEq)):
            pos = ast.Compare(left=test.left, ops=[ast.Is() if isinstance(test.ops[0], ast.IsNot) else ast.Eq()],
                              comparators=test.comparators)
            return ((norm(pos), not val),)
        return ((norm(test), val),)

    def _prunable(self, text):
        try:
            e = ast.parse(text, mode='eval').body
        except SyntaxError:
            return False
        for n in ast.walk(e):
            if isinstance(n, ast.Name) and n.id in self.multi:
                return False
            if isinstance(n, ast.Attribute) and n.attr in self.stored_attrs:
                return False
            if isinstance(n, ast.Call) and not (isinstance(n.func, ast.Name) and n.func.id in _PURE_CALLS):
                return False
        return True

    def add_conds(self, conds, new):
        """conds + new, or None when the path is infeasible (an atom and its negation)"""
        out = conds
        for (t, b) in new:
            if isinstance(b, bool) and (t, not b) in out and self._prunable(t):
                return None
            if (t, b) not in out:
                out = out + ((t, b),)
        return out

    # ---------------------------------------------------------------- helper calls
    def helper_paths(self, call):
        """[(value, conds)] for a call of a method of the same class (or a module function) that
        builds text: value is a template / TupleVal / ListVal.  None when not applicable."""
        if self.ctx is None or self.depth <= 0 or not isinstance(call, ast.Call):
            return None
        key = id(call)
        cache = self.__dict__.setdefault('_hp_cache', {})
        if key in cache:
            return cache[key]
        cache[key] = None
        g = None
        recv = None
        fn = call.func
        m = self.ctx.model
        if isinstance(fn, ast.Attribute) and isinstance(fn.value, ast.Name) and fn.value.id in ('self', 'cls') \
           and self.func.cls is not None:
            g = m.resolve_method(self.func.cls.name, fn.attr)
        elif isinstance(fn, ast.Name):
            g = m.funcs.get('%s.%s' % (self.func.module.name, fn.id))
        if g is None or g.qual == self.func.qual or isinstance(g.node, ast.Lambda):
            return None
        if any(isinstance(a, ast.Starred) for a in call.args) or any(k.arg is None for k in call.keywords):
            return None
        if any(isinstance(n, (ast.Yield, ast.YieldFrom)) for n in walk_no_nested(g.node)):
            return None
        params = g.bound_params() if g.cls is not None else list(g.all_params)
        stored = {n.id for n in ast.walk(g.node) if isinstance(n, ast.Name) and isinstance(n.ctx, ast.Store)}
        if set(params) & stored:
            return None
        from .poly import subst_names
        bind = {}
        for p_, a in zip(params, call.args):
            bind[p_] = a
        for k in call.keywords:
            bind[k.arg] = k.value
        # defaults of parameters that were not passed
        a_ = g.node.args
        pos = a_.posonlyargs + a_.args
        for p_, d in zip(pos[len(pos) - len(a_.defaults):], a_.defaults):
            bind.setdefault(p_.arg, d)
        for p_, d in zip(a_.kwonlyargs, a_.kw_defaults):
            if d is not None:
                bind.setdefault(p_.arg, d)
        if any(p_ not in bind for p_ in params):
            return None
        body = [subst_names(st, bind) for st in g.body()]
        sub = Evaluator(g, self.ctx, self.depth - 1, body=body)
        finals = sub._paths(body, {}, [], (), False)
        res = []
        for (env, out, conds, ret) in finals:
            if not isinstance(ret, ast.Return) or ret.value is None:
                if ret == 'raise':
                    continue
                return None
            res.append((sub.value_of(ret.value, env), conds))
        if not res:
            return None
        cache[key] = res
        return res

    def _call_value(self, e):
        """abstract value of a helper call (single path, or the path chosen for this statement)"""
        if id(e) in self._chosen:
            return self._chosen[id(e)]
        hp = self.helper_paths(e)
        if hp is not None and len(hp) == 1:
            return hp[0][0]
        return None

    def value_of(self, v, env):
        tv = self.tuple_of(v, env)
        if tv is not None and not (isinstance(v, ast.Call) and isinstance(v.func, ast.Name)
                                   and v.func.id == 'format_float'):
            return tv
        lv = self.list_of(v, env)
        if lv is not None:
            return ListVal(list(lv.items), lv.open)
        return self.template(v, env)

    # ---------------------------------------------------------------- expressions
    def tuple_of(self, e, env):
        if isinstance(e, ast.Tuple):
            items = []
            for x in e.elts:
                if isinstance(x, ast.Starred):
                    items.append(('star', x.value))
                else:
                    items.append(x)
            return TupleVal(items)
        if isinstance(e, ast.Name) and isinstance(env.get(e.id), TupleVal):
            return env[e.id]
        if isinstance(e, ast.Call):
            cv = self._call_value(e)
            if isinstance(cv, TupleVal):
                return cv
        if isinstance(e, ast.BinOp) and isinstance(e.op, ast.Add):
            a = self.tuple_of(e.left, env)
            b = self.tuple_of(e.right, env)
            if a is not None and b is not None:
                return TupleVal(a.items + b.items)
            return None
        if isinstance(e, ast.Call) and isinstance(e.func, ast.Name) and e.func.id == 'tuple' and e.args:
            a = e.args[0]
            if isinstance(a, ast.GeneratorExp) or isinstance(a, ast.ListComp):
                return TupleVal([('star', a)])
            return TupleVal([('star', a)])
        if isinstance(e, ast.Call) and isinstance(e.func, ast.Name) and e.func.id == 'format_float' and e.args:
            inner = self.tuple_of(e.args[0], env)
            if inner is None and isinstance(e.args[0], (ast.List,)):
                inner = TupleVal(list(e.args[0].elts))
            if inner is not None:
                return TupleVal([('ff', x, e) if not (isinstance(x, tuple)) else x for x in inner.items])
            return TupleVal([('star', e)])
        return None

    def template(self, e, env):
        """Template (list of pieces) of a string-valued expression"""
        if isinstance(e, ast.Constant) and isinstance(e.value, str):
            return parse_format(e.value) if '%' in e.value else [('lit', e.value)]
        if isinstance(e, ast.Name):
            v = env.get(e.id)
            if isinstance(v, list):
                return list(v)
            return [('unk', e.id)]
        if isinstance(e, ast.BinOp) and isinstance(e.op, ast.Add):
            return merge_lits(self.template(e.left, env) + self.template(e.right, env))
        if isinstance(e, ast.BinOp) and isinstance(e.op, ast.Mult):
            l = self.template(e.left, env)
            if isinstance(e.right, ast.Constant) and isinstance(e.right.value, int):
                return merge_lits(l * e.right.value)
            return [('unk', norm(e))]
        if isinstance(e, ast.BinOp) and isinstance(e.op, ast.Mod):
            l = self.template(e.left, env)
            return self.apply(l, e.right, env)
        if isinstance(e, ast.Call):
            fn = e.func
            cv = self._call_value(e)
            if isinstance(cv, list):
                return list(cv)
            if isinstance(fn, ast.Attribute) and fn.attr == 'join' and len(e.args) == 1:
                sep = self.template(fn.value, env)
                septxt = ''.join(p[1] for p in sep if p[0] == 'lit') if all(p[0] == 'lit' for p in sep) else None
                a = e.args[0]
                if isinstance(a, ast.Call) and isinstance(a.func, ast.Name) and a.func.id == '_each' and len(a.args) == 2:
                    # element of a comprehension in a closed expression of the symbolic walk
                    return [('var', norm(a.args[1]), self.template(a.args[0], env), septxt)]
                if isinstance(a, (ast.GeneratorExp, ast.ListComp)):
                    env2 = dict(env)
                    el = self.template(a.elt, env2)
                    it = a.generators[0].iter
                    if isinstance(it, ast.Name) and isinstance(env.get(it.id), TupleVal) and \
                       not any(isinstance(x, tuple) and x[0] == 'star' for x in env[it.id].items) \
                       and septxt is not None and not a.generators[0].ifs:
                        out = []
                        for i in range(len(env[it.id].items)):
                            if i:
                                out.append(('lit', septxt))
                            out += el if el else [('unk', '')]
                        return out
                    return [('var', norm(a.generators[0].iter), el, septxt)]
                lv = self.list_of(a, env)
                if lv is not None and septxt is not None:
                    out = []
                    for i, t in enumerate(lv.items):
                        if i:
                            out.append(('lit', septxt))
                        out += t
                    if lv.open:
                        out.append(('var', 'more', [], septxt))
                    return merge_lits(out)
                return [('unk', norm(e))]
            if isinstance(fn, ast.Name) and fn.id == 'str' and len(e.args) == 1:
                return [('conv', '%s', e.args[0])]
            if isinstance(fn, ast.Attribute) and fn.attr in ('strip', 'rstrip', 'lstrip') and not e.args:
                return self.template(fn.value, env)
            return [('unk', norm(e))]
        if isinstance(e, ast.JoinedStr):
            out = []
            for v in e.values:
                if isinstance(v, ast.Constant):
                    out.append(('lit', v.value))
                elif isinstance(v, ast.FormattedValue):
                    spec = '%s'
                    if v.format_spec is not None and all(isinstance(x, ast.Constant) for x in v.format_spec.values):
                        spec = _spec_from_format(''.join(x.value for x in v.format_spec.values))
                    out.append(('conv', spec, v.value))
            return merge_lits(out)
        if isinstance(e, ast.IfExp):
            return [('unk', norm(e))]
        if isinstance(e, ast.Subscript):
            return [('unk', norm(e))]
        return [('unk', norm(e))]

    def list_of(self, e, env):
        if isinstance(e, ast.List):
            return ListVal([self.template(x, env) for x in e.elts])
        if isinstance(e, ast.Name) and isinstance(env.get(e.id), ListVal):
            return env[e.id]
        if isinstance(e, ast.Call):
            cv = self._call_value(e)
            if isinstance(cv, ListVal):
                return ListVal(list(cv.items), cv.open)
            if isinstance(e.func, ast.Name) and e.func.id == 'list' and len(e.args) == 1:
                return self.list_of(e.args[0], env)
        if isinstance(e, (ast.ListComp, ast.GeneratorExp)) and len(e.generators) == 1:
            el = self.template(e.elt, env)
            return ListVal([[('var', norm(e.generators[0].iter), el, None)]], True)
        if isinstance(e, ast.BinOp) and isinstance(e.op, ast.Mult):
            l = self.list_of(e.left, env)
            if l is not None and isinstance(e.right, ast.Constant) and isinstance(e.right.value, int):
                return ListVal(l.items * e.right.value)
        if isinstance(e, ast.BinOp) and isinstance(e.op, ast.Add):
            a, b = self.list_of(e.left, env), self.list_of(e.right, env)
            if a is not None and b is not None:
                return ListVal(a.items + b.items)
        return None

    def apply(self, tmpl, right, env):
        convs = [i for i, p in enumerate(tmpl) if p[0] == 'conv' and p[2] is None]
        tv = self.tuple_of(right, env)
        out = list(tmpl)
        if tv is None:
            if len(convs) == 1:
                out[convs[0]] = ('conv', tmpl[convs[0]][1], right)
                out = self._expand_s(out, env)
            elif len(convs) > 1 and not isinstance(right, ast.Name):
                # several conversions fed from one tuple-valued expression
                for i in convs:
                    out[i] = ('conv', tmpl[i][1], ('star', right))
            return out
        items = tv.items
        # bind from the left up to the first star, from the right down to the last star
        i = 0
        while i < len(items) and i < len(convs) and not (isinstance(items[i], tuple) and items[i][0] == 'star'):
            out[convs[i]] = ('conv', tmpl[convs[i]][1], items[i])
            i += 1
        if i < len(items):
            j = 1
            while j <= len(items) - i and j <= len(convs) - i and \
                    not (isinstance(items[-j], tuple) and items[-j][0] == 'star'):
                out[convs[-j]] = ('conv', tmpl[convs[-j]][1], items[-j])
                j += 1
        return self._expand_s(out, env)

    def _expand_s(self, pieces, env):
        """a %s conversion whose argument is itself a string expression we can evaluate
        (sep.join(...), another template) is replaced by that template"""
        out = []
        for p in pieces:
            if p[0] == 'conv' and p[1] == '%s' and isinstance(p[2], ast.AST):
                a = p[2]
                if isinstance(a, ast.Call) and isinstance(a.func, ast.Attribute) and a.func.attr == 'join':
                    out += self.template(a, env)
                    continue
                if isinstance(a, ast.Constant) and isinstance(a.value, str):
                    out.append(('lit', a.value))
                    continue
                if isinstance(a, ast.BinOp) and isinstance(a.op, ast.Mod) and isinstance(a.left, ast.Constant) and \
                   isinstance(a.left.value, str):
                    # %s of a text that is itself `literal % values`: that text
                    out += self.template(a, env)
                    continue
                if isinstance(a, ast.JoinedStr):
                    out += self.template(a, env)
                    continue
                if isinstance(a, ast.Name) and isinstance(env.get(a.id), list) and env[a.id] and \
                   all(q[0] == 'lit' for q in env[a.id]):
                    out += env[a.id]
                    continue
            out.append(p)
        return merge_lits(out)

    # ---------------------------------------------------------------- statements
    def emissions(self):
        """[(Template, conds, in_loop, node, path conds)]"""
        results = []
        self.npaths = 0
        finals = self._paths(self._body, {}, [], (), False)
        for (env, out, conds, ret) in finals:
            self.npaths += 1
            if ret is not None:
                self._return(ret, env, out, conds, results)
        lines = []
        for (t, c, il, node, pc) in results:
            for (t2, rep) in split_lines(t):
                lines.append((t2, c, il or rep, node, pc))
        return lines

    def _paths(self, stmts, env, out, conds, in_loop):
        """enumerate paths through stmts; returns [(env, out, conds, return stmt or None)];
        a path that ended with return/raise carries ret != None / 'raise' / 'jump'"""
        states = [(env, out, conds, None)]
        for st in stmts:
            nxt = []
            for (e, o, c, r) in states:
                if r is not None:
                    nxt.append((e, o, c, r))
                    continue
                if isinstance(st, ast.If):
                    for val, blk in ((True, st.body), (False, st.orelse)):
                        c2 = self.add_conds(c, self.atoms(st.test, val))
                        if c2 is None:
                            continue        # contradicts a test passed earlier on this path
                        nxt += self._paths(blk, self._copy(e), list(o), c2, in_loop)
                elif isinstance(st, (ast.For, ast.While)):
                    lc = ('loop', norm(st.iter) if isinstance(st, ast.For) else norm(st.test))
                    body = self._paths(st.body, self._copy(e), [], c + (lc,), True)
                    e2 = self._copy(e)
                    o2 = list(o)
                    seen = set()
                    for (be, bo, bc, br) in body:
                        ordinal = {}
                        for ent in bo:
                            ordinal[id(ent[3])] = ordinal.get(id(ent[3]), 0) + 1
                            k = (template_text(ent[0]), ent[1], tuple(arg_text(p_[2]) for p_ in ent[0] if p_[0] == 'conv'),
                                 id(ent[3]), ordinal[id(ent[3])])
                            if k not in seen:
                                seen.add(k)
                                o2.append((ent[0], ent[1], True, ent[3]))
                        for name, v in be.items():
                            if isinstance(v, ListVal) and isinstance(e2.get(name), ListVal):
                                if len(v.items) > len(e2[name].items):
                                    e2[name].open = True
                                    for it in v.items[len(e.get(name).items) if isinstance(e.get(name), ListVal) else 0:]:
                                        if it not in e2[name].items:
                                            e2[name].items.append(it)
                    nxt.append((e2, o2, c, None))
                elif isinstance(st, ast.Return):
                    ife = None
                    for x in _walk_stmt_exprs(st):
                        if isinstance(x, ast.IfExp) and _is_pure_test(x.test):
                            ife = x
                            break
                    if ife is not None:
                        alt = ast.If(test=ife.test, body=[_copy_replace(st, ife, ife.body)],
                                     orelse=[_copy_replace(st, ife, ife.orelse)])
                        ast.copy_location(alt, st)
                        nxt += self._paths([alt], e, o, c, in_loop)
                    else:
                        nxt.append((e, o, c, st))
                elif isinstance(st, ast.Raise):
                    nxt.append((e, o, c, 'raise'))
                elif isinstance(st, (ast.Continue, ast.Break)):
                    nxt.append((e, o, c, 'jump'))
                elif isinstance(st, ast.Return) and False:
                    pass
                else:
                    # a conditional expression forks the path like an if statement
                    ife = None
                    for x in _walk_stmt_exprs(st):
                        if isinstance(x, ast.IfExp) and _is_pure_test(x.test):
                            ife = x
                            break
                    if ife is not None:
                        alt = ast.If(test=ife.test, body=[_copy_replace(st, ife, ife.body)],
                                     orelse=[_copy_replace(st, ife, ife.orelse)])
                        ast.copy_location(alt, st)
                        nxt += self._paths([alt], e, o, c, in_loop)
                        continue
                    # helper calls with several paths: one caller path per helper path
                    multi = []
                    for x in _walk_stmt_exprs(st):
                        if isinstance(x, ast.Call):
                            hp = self.helper_paths(x)
                            if hp is not None and len(hp) > 1:
                                multi.append((x, hp))
                    if multi and not isinstance(st, ast.Return):
                        for combo in itertools.product(*[hp for x, hp in multi]):
                            c2 = c
                            for (val, hc) in combo:
                                if c2 is not None:
                                    c2 = self.add_conds(c2, [a for a in hc if a[0] != 'loop'])
                            if c2 is None:
                                continue
                            self._chosen = {id(x): val for (x, hp), (val, hc) in zip(multi, combo)}
                            e2, o2 = self._copy(e), list(o)
                            self._simple(st, e2, o2, c2, in_loop)
                            self._chosen = {}
                            nxt.append((e2, o2, c2, None))
                        continue
                    self._simple(st, e, o, c, in_loop)
                    nxt.append((e, o, c, None))
            states = nxt
            if len(states) > MAX_PATHS:
                raise AnalysisError('%s: more than %d paths through the writer' % (self.func.qual, MAX_PATHS))
        if in_loop:
            # continue/break end the iteration, not the function
            states = [(e, o, c, None if r == 'jump' else r) for (e, o, c, r) in states]
        return [(e, o, c, r) for (e, o, c, r) in states if r != 'raise' or True]

    def _copy(self, env):
        e = {}
        for k, v in env.items():
            if isinstance(v, ListVal):
                e[k] = ListVal(list(v.items), v.open)
            elif isinstance(v, list):
                e[k] = list(v)
            else:
                e[k] = v
        return e

    def _simple(self, st, env, out, conds, in_loop):
        if isinstance(st, ast.Assign) and len(st.targets) == 1 and isinstance(st.targets[0], ast.Name):
            name = st.targets[0].id
            v = st.value
            tv = self.tuple_of(v, env)
            if tv is not None and not (isinstance(v, ast.Call) and isinstance(v.func, ast.Name)
                                       and v.func.id == 'format_float'):
                env[name] = tv
                return
            lv = self.list_of(v, env)
            if lv is not None:
                env[name] = ListVal(list(lv.items), lv.open)
                if isinstance(v, ast.Call) and lv.items:
                    # lines produced by a helper are emissions of this writer
                    for t in lv.items:
                        out.append((t, conds, in_loop or lv.open, v))
                return
            env[name] = self.template(v, env)
            return
        if isinstance(st, ast.AugAssign) and isinstance(st.target, ast.Name) and isinstance(st.op, ast.Add):
            name = st.target.id
            cur = env.get(name)
            if isinstance(cur, list):
                env[name] = merge_lits(cur + self.template(st.value, env))
            elif isinstance(cur, TupleVal):
                tv = self.tuple_of(st.value, env)
                env[name] = TupleVal(cur.items + (tv.items if tv else [('star', st.value)]))
            elif isinstance(cur, ListVal):
                self._extend(cur, st.value, env, out, conds, in_loop, st)
            return
        if isinstance(st, ast.Expr) and isinstance(st.value, ast.Call):
            c = st.value
            if isinstance(c.func, ast.Attribute) and c.func.attr == 'append' and \
               isinstance(c.func.value, ast.Name) and len(c.args) == 1:
                name = c.func.value.id
                lv = env.get(name)
                if isinstance(lv, ListVal):
                    t = self.template(c.args[0], env)
                    lv.items.append(t)
                    if in_loop:
                        lv.open = True
                    out.append((t, conds, in_loop, c))
            elif isinstance(c.func, ast.Attribute) and c.func.attr == 'extend' and \
                    isinstance(c.func.value, ast.Name) and len(c.args) == 1:
                lv = env.get(c.func.value.id)
                if isinstance(lv, ListVal):
                    self._extend(lv, c.args[0], env, out, conds, in_loop, c)
            return

    def _extend(self, lv, arg, env, out, conds, in_loop, node):
        add = self.list_of(arg, env)
        if add is None:
            add = ListVal([[('unk', norm(arg))]], True)
        for t in add.items:
            lv.items.append(t)
            out.append((t, conds, in_loop or add.open, node))
        if in_loop or add.open:
            lv.open = True

    def _return(self, st, env, out, conds, results):
        if not isinstance(st, ast.Return):
            return
        v = st.value
        if v is None:
            return
        # '\n'.join(r) / ' '.join(r) / ''.join(l) : the appended entries are the lines
        if isinstance(v, ast.Call) and isinstance(v.func, ast.Attribute) and v.func.attr == 'join' \
           and len(v.args) == 1 and isinstance(v.args[0], ast.Name) and \
           isinstance(env.get(v.args[0].id), ListVal):
            name = v.args[0].id
            sep = self.template(v.func.value, env)
            septxt = ''.join(p[1] for p in sep if p[0] == 'lit')
            if '\n' in septxt:
                for (t, c, il, node) in out:
                    results.append((t, c, il, node, conds))
            else:
                # joined into one line
                lv = env[name]
                pieces = []
                for i, t in enumerate(lv.items):
                    if i:
                        pieces.append(('lit', septxt))
                    pieces += t
                results.append((merge_lits(pieces), conds, False, st, conds))
            return
        t = self.template(v, env)
        results.append((t, conds, False, st, conds))


def split_lines(t):
    """[(line template, repeated?)]: a template containing newlines (a nested writer was looked
    through) is several lines; a newline-separated repetition contributes its element as a
    repeated line"""
    if not any((p[0] == 'lit' and '\n' in p[1]) or (p[0] == 'var' and p[3] is not None and '\n' in p[3]) for p in t):
        return [(t, False)]
    out = []
    cur = []
    for p in t:
        if p[0] == 'lit' and '\n' in p[1]:
            parts = p[1].split('\n')
            for i, part in enumerate(parts):
                if i:
                    out.append((merge_lits(cur), False))
                    cur = []
                if part:
                    cur.append(('lit', part))
        elif p[0] == 'var' and p[3] is not None and '\n' in p[3]:
            if cur:
                out.append((merge_lits(cur), False))
                cur = []
            if p[2]:
                for (t2, rep) in split_lines(p[2]):
                    out.append((t2, True))
        else:
            cur.append(p)
    if cur:
        out.append((merge_lits(cur), False))
    return [(t2, rep) for (t2, rep) in out if t2]


def template_text(t):
    out = []
    for p in t:
        if p[0] == 'lit':
            out.append(p[1])
        elif p[0] == 'conv':
            out.append(p[1])
        elif p[0] == 'var':
            out.append('<%s...>' % ''.join(q[1] for q in p[2] if q[0] in ('lit', 'conv')))
        else:
            out.append('<?>')
    return ''.join(out)


def arg_text(a):
    if a is None:
        return None
    if isinstance(a, tuple):
        if a[0] == 'star':
            return '*' + norm(a[1])
        if a[0] == 'ff':
            return 'format_float(%s)' % norm(a[1])
    return norm(a)


def written_values(e, flow=None, at=None, depth=0):
    """flatten the right-hand side of a %-format into the value expressions that are written:
    tuples, tuple concatenation, format_float(...), tuple(f(x) for x in format_float(...)),
    local temporaries (through `flow`)"""
    if depth > 6:
        return [e]
    if isinstance(e, ast.Tuple) or isinstance(e, ast.List):
        out = []
        for x in e.elts:
            out += written_values(x, flow, at, depth + 1) if isinstance(x, (ast.Tuple,)) else [x]
        return out
    if isinstance(e, ast.BinOp) and isinstance(e.op, ast.Add):
        l = written_values(e.left, flow, at, depth + 1)
        r = written_values(e.right, flow, at, depth + 1)
        if isinstance(e.left, (ast.Tuple, ast.Call, ast.Name, ast.BinOp, ast.Subscript)) and \
           isinstance(e.right, (ast.Tuple, ast.Call, ast.Name, ast.BinOp, ast.Subscript)) and \
           (isinstance(e.left, ast.Tuple) or isinstance(e.right, ast.Tuple) or
                _is_tuple_producer(e.left) or _is_tuple_producer(e.right)):
            return l + r
        return [e]
    if isinstance(e, ast.Call) and isinstance(e.func, ast.Name) and e.func.id == 'format_float' and e.args:
        return written_values(e.args[0], flow, at, depth + 1)
    if isinstance(e, ast.Call) and isinstance(e.func, ast.Name) and e.func.id == 'tuple' and e.args:
        a = e.args[0]
        if isinstance(a, (ast.GeneratorExp, ast.ListComp)) and len(a.generators) == 1:
            return written_values(a.generators[0].iter, flow, at, depth + 1)
        return written_values(a, flow, at, depth + 1)
    if isinstance(e, ast.Name) and flow is not None and e.id in flow.rd.names:
        sd = flow.single_def(e.id, at if at is not None else flow.node_id_of(e))
        if sd is not None and (isinstance(sd[0], (ast.Tuple,)) or _is_tuple_producer(sd[0])):
            return written_values(sd[0], flow, sd[1], depth + 1)
    return [e]


def _is_tuple_producer(e):
    return isinstance(e, ast.Call) and isinstance(e.func, ast.Name) and e.func.id in ('tuple', 'format_float')


# ---------------------------------------------------------------- printed values (all format styles)
_FIELD_RE = re.compile(r'\{([^{}:!]*)(?:![rsa])?(?::([^{}]*))?\}')


def _spec_from_format(spec):
    """python format-spec ('6.2f', '>9', '') -> printf-like spec text used by the rules"""
    if spec is None or spec == '':
        return '%s'
    mo = re.match(r'^(?P<fill>.?[<>=^])?(?P<sign>[-+ ])?#?0?(?P<width>\d+)?,?(?:\.(?P<prec>\d+))?(?P<type>[bcdeEfFgGnosxX%])?$', spec)
    if not mo:
        return '%s'
    t = mo.group('type') or 's'
    if t == 'n':
        t = 'd'
    out = '%' + (mo.group('sign') or '') + (mo.group('width') or '')
    if mo.group('prec') is not None:
        out += '.' + mo.group('prec')
    return out + t


def _const_str(e, flow, at):
    try:
        from .model import const_value
        v = const_value(e)
        return v if isinstance(v, str) else None
    except Exception:
        pass
    if isinstance(e, ast.Name) and flow is not None and e.id in flow.rd.names:
        sd = flow.single_def(e.id, at)
        if sd is not None:
            return _const_str(sd[0], flow, sd[1])
    func = getattr(flow, 'func', None)
    if func is not None and isinstance(e, ast.Attribute) and isinstance(e.value, ast.Name) and e.value.id in ('self', 'cls') \
       and func.cls is not None:
        # a format kept as a class-level constant (class body assignment, looked up along the base classes)
        for ci in (func.cls.mro or [func.cls]):
            if e.attr in ci.class_attrs:
                try:
                    from .model import const_value
                    v = const_value(ci.class_attrs[e.attr])
                    return v if isinstance(v, str) else None
                except Exception:
                    return None
    if func is not None and isinstance(e, ast.Name) and (flow is None or e.id not in flow.rd.names):
        # ... or as a module-level constant bound once
        hits = [st for st in func.module.tree.body if isinstance(st, ast.Assign) and
                any(isinstance(t, ast.Name) and t.id == e.id for t in st.targets)]
        if len(hits) == 1:
            try:
                from .model import const_value
                v = const_value(hits[0].value)
                return v if isinstance(v, str) else None
            except Exception:
                return None
    return None


def printed_values(func, flow=None):
    """[(spec or None, value expr or None, node)] for every value formatted into text by func:
    %-formats (left side literal or a local bound to a literal), f-strings, str.format"""
    out = []
    for n in walk_no_nested(func.node):
        at = flow.node_id_of(n) if flow is not None else None
        if isinstance(n, ast.BinOp) and isinstance(n.op, ast.Mod):
            txt = _const_str(n.left, flow, at)
            vals = written_values(n.right, flow, at)
            if txt is not None:
                specs = [mo.group(0) for mo in CONV_RE.finditer(txt) if mo.group('type') != '%']
                if len(vals) == len(specs):
                    out += [(sp, v, n) for sp, v in zip(specs, vals)]
                else:
                    head = []
                    for v in vals:
                        if isinstance(v, (ast.Subscript, ast.Starred)) or (
                                isinstance(v, ast.Name) and flow is not None and v.id in flow.rd.names):
                            break
                        head.append(v)
                    vv = (head + [None] * len(specs))[:len(specs)]
                    out += [(sp, v, n) for sp, v in zip(specs, vv)]
            else:
                out += [(None, v, n) for v in vals]
        elif isinstance(n, ast.JoinedStr):
            for v in n.values:
                if isinstance(v, ast.FormattedValue):
                    spec = None
                    if v.format_spec is not None and all(isinstance(x, ast.Constant) for x in v.format_spec.values):
                        spec = ''.join(x.value for x in v.format_spec.values)
                    elif v.format_spec is None:
                        spec = ''
                    out.append((_spec_from_format(spec) if spec is not None else None, v.value, n))
        elif isinstance(n, ast.Call) and isinstance(n.func, ast.Attribute) and n.func.attr == 'format':
            txt = _const_str(n.func.value, flow, at)
            if txt is not None:
                fields = _FIELD_RE.findall(txt.replace('{{', '').replace('}}', ''))
                pos = 0
                for name, spec in fields:
                    val = None
                    if name == '' and pos < len(n.args):
                        val = n.args[pos]
                        pos += 1
                    elif name.isdigit() and int(name) < len(n.args):
                        val = n.args[int(name)]
                    else:
                        for kw in n.keywords:
                            if kw.arg == name.split('.')[0].split('[')[0]:
                                val = kw.value
                    out.append((_spec_from_format(spec), val, n))
    return out
