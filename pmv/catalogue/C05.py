M = 'mininec.'
MUTANTS = [
    ('rot_y transposed sign', [(M + 'Rotation_Matrix.__init__', "                ( [ [ np.cos (a), 0, np.sin (a)]\n                  , [ 0,          1, 0         ]\n                  , [-np.sin (a), 0, np.cos (a)]", "                ( [ [ np.cos (a), 0, -np.sin (a)]\n                  , [ 0,          1, 0         ]\n                  , [ np.sin (a), 0, np.cos (a)]")], ['rotation']),
    ('rot_x not orthogonal', [(M + 'Rotation_Matrix.__init__', "                  , [0, np.cos (a), -np.sin (a)]", "                  , [0, np.cos (a),  np.sin (a)]")], ['rotation']),
    ('rot_z uses angle of y', [(M + 'Rotation_Matrix.__init__', "        if rotation [2]:\n            a = rotation [2] / 180 * np.pi", "        if rotation [2]:\n            a = rotation [1] / 180 * np.pi")], ['rotation']),
    ('product order reversed', [(M + 'Rotation_Matrix.__init__', "self.m = rot_z @ rot_y @ rot_x", "self.m = rot_x @ rot_y @ rot_z")], ['rotation', 'product']),
    ('angle in radians assumed', [(M + 'Rotation_Matrix.__init__', "        if rotation [0]:\n            a = rotation [0] / 180 * np.pi", "        if rotation [0]:\n            a = rotation [0]")], ['rotation']),
    ('wire rotate forgets p2', [(M + 'Wire.rotate', "        self.p2 = rmatrix.apply (self.p2)\n", "")], ['transform']),
    ('wire scale forgets radius', [(M + 'Wire.scale', "        self._r = self._r * factor\n", "")], ['transform']),
    ('curve scale forgets radius', [(M + 'Curve.scale', "        self._r      = self._r      * factor", "        pass")], ['transform']),
    ('wire translate does not refresh endpoints', [(M + 'Wire.translate', "        self.p2 = self.p2 + translation\n        self.compute_endpoints ()", "        self.p2 = self.p2 + translation")], ['transform']),
    ('translate p2 by negative', [(M + 'Wire.translate', "self.p2 = self.p2 + translation", "self.p2 = self.p2 - translation")], ['transform']),
    ('container rotate only first object', [(M + 'Geo_Container.rotate', "            for g in self:\n                g.rotate (rmatrix)", "            self.geo [0].rotate (rmatrix)")], ['dispatch']),
    ('container scale ignores tag', [(M + 'Geo_Container.scale', "            self.by_tag [tag].scale (factor)", "            self.geo [tag - 1].scale (factor)")], ['dispatch']),
    ('transforms applied unsorted', [(M + 'main', "for t in sorted (geo_transforms, key = lambda x: x [0]):", "for t in geo_transforms:")], ['ORDER', 'sorted', 'anchors']),
    ('wavelength constant written elsewhere', [(M + 'Mininec.compute_near_field', "s0 = .001 * self.wavelen", "s0 = .001 * self.wavelen\n        self.srm = .0001 * self.wavelen")], ['wavelength', 'single-writer']),
    ('srm not scaled with wavelength', [(M + 'Mininec.f', "self.srm     = .0001 * w", "self.srm     = .0001 * 42.8")], []),
]
MUTANTS = [m_ for m_ in MUTANTS if m_[2]]
MUTANTS += [
    ('non-vertical test by the sign of the direction cosines', [('pulse.Pulse.is_non_vertical_grounded', "and (self.segs [0].dirvec [0] or self.segs [0].dirvec [1])", "and (self.segs [0].dirvec [:2] > 0).any ()")], ['direction-sign']),
    ('taper from the radius as entered', [('mininec.Wire.compute_taper1_segments', "self.n_segments, self.r, **d)", "self.n_segments, self.r_unscaled, **d)")], ['unscaled-for-writer']),
    ('rotation refreshes the end points with an early-return flag', [('mininec.Wire.rotate', "        self.compute_endpoints ()", "        self.compute_endpoints (True)"), ('mininec.Wire.compute_endpoints', "    def compute_endpoints (self):\n", "    def compute_endpoints (self, keep = False):\n        if keep:\n            return\n")], ['SIB.transform']),
]
REFACTORS = [
    ('non-vertical test by absolute value', [('pulse.Pulse.is_non_vertical_grounded', "and (self.segs [0].dirvec [0] or self.segs [0].dirvec [1])", "and bool ((np.abs (self.segs [0].dirvec [:2]) > 0).any ())")]),
    ('scale with factor first', [(M + 'Wire.scale', "self.p1 = self.p1 * factor", "self.p1 = factor * self.p1"), (M + 'Wire.scale', "self.p2 = self.p2 * factor", "self.p2 = factor * self.p2")]),
    ('translate via temporary', [(M + 'Curve.translate', "self.segends = self.segends + translation", "moved = self.segends + translation\n        self.segends = moved")]),
    ('angle via np.deg2rad-like product reorder', [(M + 'Rotation_Matrix.__init__', "        if rotation [0]:\n            a = rotation [0] / 180 * np.pi", "        if rotation [0]:\n            a = np.pi * rotation [0] / 180")]),
]
