"""C01  Power balance: source power = load dissipation + radiated far-field power.

Only structural necessary conditions are decided:
 D1 R-DEP  the power that normalises far and near field is the sum over ALL sources of the source
           power, computed after the currents are solved.
 D2 R-DEP  both field computations normalise with that value: the dBi array depends on self.power
           (and not on the requested power / distance), the near-field scale is sqrt(pwr/power).
 D3 R-DEP  Excitation.power = 1/2 Re(V conj(I)) with I the solved current on the feed pulse.
 D4 R-EXH  loads enter the system on the diagonal with the weight of a series element (= C08-D1/D2).
Not decided: the 1.5 % balance itself, the Fresnel branch, dissipation in loads (numeric).
"""
import ast
from ..model import AnalysisError, walk_no_nested, norm, dotted
from ..rules import assigns_to_attr, calls_in

COMPUTE = 'mininec.Mininec.compute'


def check_total_power(ctx, ck):
    m = ctx.model
    # decided on the symbolic walk of compute() (method-name tables, getattr, private helpers resolved;
    # an accumulator loop and sum(generator) have the same normal form)
    from ..symx import SymExec, canon_k
    f = m.func(COMPUTE)
    paths = [p_ for p_ in SymExec(ctx, f, bind_loops=True, private_only=True, props=True, effects=True, max_paths=2000).run() if p_.end != 'raise']
    ck.floor('paths through compute', len(paths), 1)
    vals = set()
    after = True
    for p_ in paths:
        st_i = [i_ for i_, ev in enumerate(p_.events) if ev[0] == 'store' and ev[1] == 'self.power']
        sv_i = [i_ for i_, ev in enumerate(p_.events) if ev[0] == 'call' and isinstance(ev[1].func, ast.Attribute)
                and ev[1].func.attr == 'compute_currents' and norm(ev[1].func.value) == 'self']
        if len(st_i) != 1:
            vals.add('self.power is stored %d times' % len(st_i))
            after = False
            continue
        v_ = p_.events[st_i[0]][2]
        # sum(...) / np.sum([...]) / math.fsum(...) over a generator or a list built by a comprehension
        from ..symx import _each_of
        if isinstance(v_, ast.Call) and (dotted(v_.func) or '').split('.')[-1] in ('sum', 'fsum') and len(v_.args) == 1 and \
           not v_.keywords and _each_of(v_.args[0]) is not None:
            e_, it_ = _each_of(v_.args[0])
            v_ = ast.Call(func=ast.Name(id='sum', ctx=ast.Load()),
                          args=[ast.Call(func=ast.Name(id='_each', ctx=ast.Load()), args=[e_, it_], keywords=[])], keywords=[])
        vals.add(canon_k(norm(v_)))
        after = after and len(sv_i) == 1 and sv_i[0] < st_i[0]
    ok = vals == {'sum(_each(self.sources[_k0].power, self.sources))'}
    ck.ob('R-DEP.total-power', COMPUTE + '|sum-over-all-sources', ok, f.loc(),
          'self.power = sum of the power of every source' if ok else
          'self.power = %s is not the sum of the power of every source' % sorted(vals)[0][:150])
    ck.ob('R-DEP.total-power', COMPUTE + '|after-solve', after, f.loc(), 'total power is evaluated after compute_currents()')



def run(ctx, ck):
    m = ctx.model
    ck.rule('R-DEP.total-power', 'self.power = sum of the power of all sources, after the solve')
    ck.rule('R-DEP.dbi-normalised', 'dBi array normalised by self.power, independent of requested power/distance')
    ck.rule('R-SIB.field-scaling', 'near field scaled by sqrt(pwr / self.power)')
    ck.rule('R-DEP.power-formula', 'Excitation.power = 1/2 Re(V conj(I))')
    ck.rule('R-DEP.current-lookup', 'Excitation.current = parent.current[idx]')
    ck.rule('R-SIB.weight', 'load weight == source weight (series element)')

    check_total_power(ctx, ck)

    from .C10 import check_dbi_normalisation
    check_dbi_normalisation(ctx, ck)
    from .C04 import check_nearfield_power_scaling
    check_nearfield_power_scaling(ctx, ck)
    from .C07 import check_power_formula, single_return
    check_power_formula(ctx, ck)
    from .C07 import current_lookup
    g = m.func('mininec.Excitation.current')
    ok, why_ = current_lookup(ctx)
    ck.ob('R-DEP.current-lookup', g.qual, ok, g.loc(), 'source current is the solved current on the feed pulse: ' + why_)
    from .C08 import check_weights
    check_weights(ctx, ck)
    # every solve starts from a freshly filled matrix: the loads are added to the diagonal with +=, a matrix
    # kept from the previous solve would carry them twice (rule shared with C14)
    ck.rule('R-FRESH.solve-order', 'compute(): fill -> loads -> rhs -> solve, each exactly once on every path')
    from .C14 import check_solve_order
    check_solve_order(ctx, ck, rule='R-FRESH.solve-order')
    # the fill shortcuts of a grounded pulse are only valid for an exactly vertical segment
    ck.rule('R-LIT.vertical-exact', 'grounded-and-not-vertical is decided by exact zero tests of the horizontal direction components')
    from ._sym import check_vertical_exact
    ck.floor('tests in Pulse.is_non_vertical_grounded', check_vertical_exact(ctx, ck), 1)
    # the matrix (pulse end points) and the far field (pulse segments) describe the same junction pulse
    ck.rule('R-SIB.junction-geometry', 'outer half of a junction pulse on the neighbour segment touching the junction, its end point one step along that segment')
    from ._creation import check_neighbour_segment
    check_neighbour_segment(ctx, ck, rule='R-SIB.junction-geometry')
    ck.undecided += ['the 1.5 % balance between source, dissipated and radiated power (numeric integration)',
                     'Fresnel reflection branch over real ground', 'dissipation in loads']
