G = 'mininec.Geobj.compute_connections'
MUTANTS = [
    ('interior pulse not appended', [(G, "            p = Pulse (pu, seg.p2, seg.p1, nseg.p2, seg, nseg)\n            p.n = pc\n            pc += 1\n            self.pulses.append (p)", "            p = Pulse (pu, seg.p2, seg.p1, nseg.p2, seg, nseg)\n            p.n = pc\n            pc += 1")], ['create-register']),
    ('grounded pulse appended twice', [(G, "            p = Pulse (pu, self.p2, p1, end2, lseg, lseg, gnd = 1)\n            p.n = pc\n            pc += 1\n            self.pulses.append (p)", "            p = Pulse (pu, self.p2, p1, end2, lseg, lseg, gnd = 1)\n            p.n = pc\n            pc += 1\n            self.pulses.append (p)\n            self.pulses.append (p)")], ['create-register']),
    ('interior loop skips last joint', [(G, "for i, seg in enumerate (self.segments [:-1]):", "for i, seg in enumerate (self.segments [:-2]):")], ['count-formula', 'interior']),
    ('interior pulse at wrong point', [(G, "p = Pulse (pu, seg.p2, seg.p1, nseg.p2, seg, nseg)", "p = Pulse (pu, seg.p1, seg.p1, nseg.p2, seg, nseg)")], ['count-formula', 'interior']),
    ('second writer of idx', [(G, "        pc = 0\n", "        pc = 0\n        for q in self.pulses:\n            q.idx = 0\n")], ['container', 'writers']),
    ('add increments before storing', [('pulse.Pulse_Container.add', "        pulse.idx = self.pulse_idx\n        self.pulse_idx += 1", "        self.pulse_idx += 1\n        pulse.idx = self.pulse_idx")], ['container']),
    ('pulse registers twice', [('pulse.Pulse.__init__', "        self.container.add (self)\n", "        self.container.add (self)\n        self.container.add (self)\n")], ['container']),
    ('tolerance literal differs in ground detection', [('mininec.Wire.compute_ground', "eps = self.parent.min_seglen * 1e-3", "eps = self.parent.min_seglen * 1e-2")], ['tolerance']),
    ('tolerance absolute', [(G, "minlen = parent.min_seglen * 1e-3", "minlen = 1e-3")], ['tolerance']),
    ('grounded end 1 under wrong guard', [(G, "        elif self.is_ground [0]:\n            s = seg0.p2", "        elif self.is_ground [1]:\n            s = seg0.p2")], ['count-formula', 'grounded-end']),
]
MUTANTS += [
    ('counter not incremented after the end-1 junction pulse', [(G, "                p._c_per [1] = 0\n            p.n = pc\n            pc += 1\n", "                p._c_per [1] = 0\n            p.n = pc\n")], ['counter']),
    ('ring creates a pulse at its own first end', [(G, "if self.idx_1 != 0 and abs (self.idx_1) - 1 != self.n:", "if self.idx_1 != 0:")], ['site-kinds']),
    ('self connection not deducted from the prediction', [(G, "            npulse -= 1\n", "            npulse -= 0\n")], ['end_segs[1]']),
    ('pulse counter read after the first creations', [(G, "        self.end_segs [1] = parent.pulses.pulse_idx + npulse\n", "        pass\n"), (G, "        # Connection to other geo object(s) at end 2\n", "        self.end_segs [1] = parent.pulses.pulse_idx + npulse\n")], []),
    ('ground test by exact zero', [('mininec.Geobj.compute_ground', "self.is_ground = (abs (self.p1 [-1]) < eps, abs (self.p2 [-1]) < eps)", "self.is_ground = (self.p1 [-1] == 0, self.p2 [-1] == 0)")], ['ground-test']),
    ('ground test of end 2 on end 1', [('mininec.Geobj.compute_ground', "self.is_ground = (abs (self.p1 [-1]) < eps, abs (self.p2 [-1]) < eps)", "self.is_ground = (abs (self.p1 [-1]) < eps, abs (self.p1 [-1]) < eps)")], ['ground-test']),
    ('second junction of a pair not registered', [('mininec.Geobj._add_conn', "        n2, other = parent.end_dict [ep_tuple]\n", "        n2, other = parent.end_dict [ep_tuple]\n        if other is not self and other in self.connections ():\n            return\n")], ['add-conn']),
]
REFACTORS = [
    ('dead increment after the last creation dropped', [(G, "                p._c_per [0] = 0\n            p.n = pc\n            pc += 1\n            self.pulses.append (p)", "                p._c_per [0] = 0\n            p.n = pc\n            self.pulses.append (p)")]),
    ('rename counter', [(G, "        pc = 0\n        pu = parent.pulses", "        pc = 0\n        pu = parent.pulses\n        first = True")]),
    ('tolerance with factor first', [(G, "minlen = parent.min_seglen * 1e-3", "minlen = 1e-3 * parent.min_seglen")]),
]
