"""Weights of sources (right-hand side) and loads (matrix diagonal), from the symbolic walk.

compute_rhs and compute_impedance_matrix_loads are walked symbolically (loops entered once with the
element bound, private helpers / generators / map() looked through).  Every element store becomes a
closed expression:
    rhs[<index>]      = W_src  * <source>.voltage
    self.Z[<i>][<j>]  = self.Z[<i>][<j>] + W_load * <load>.impedance(self.f, <pulse>)
W is obtained as a polynomial over role-named atoms (`m`, constants) by dividing out the payload.
Shared by C01 / C03 / C07 / C08 (a series element adds exactly Z_L to the feed impedance iff the two
weights agree, including the doubling for a pulse on a grounded wire end).
"""
import ast
import re
from ..model import AnalysisError, norm, walk_no_nested, parent
from ..poly import poly_roles, cancel, Poly
from ..symx import SymExec, copy_replace

RHS = 'mininec.Mininec.compute_rhs'
LOADS = 'mininec.Mininec.compute_impedance_matrix_loads'


def _fork_ifexp(e, conds):
    """[(conds, expr)] with conditional expressions in e decided either way"""
    for n in ast.walk(e):
        if isinstance(n, ast.IfExp):
            out = []
            for val, br in ((True, n.body), (False, n.orelse)):
                e2 = copy_replace(e, lambda x: br if x is n else None)
                out += _fork_ifexp(e2, conds + ((norm(n.test), val),))
            return out
    return [(conds, e)]


def _paths(ctx, q):
    f = ctx.func(q)
    return f, [p for p in SymExec(ctx, f, bind_loops=True, private_only=True, effects=True, max_paths=5000, depth=3).run()
               if p.end != 'raise']


def _divide_out(pol, atom_pred):
    """pol = W * atom with exactly one atom satisfying atom_pred in every monomial (degree 1): (W, atom) or None"""
    atoms = {v for mono in pol.t for v, e in mono if atom_pred(v)}
    if len(atoms) != 1:
        return None
    a = sorted(atoms)[0]
    W = Poly()
    for mono, coef in pol.t.items():
        d = dict(mono)
        if d.get(a) != 1:
            return None
        del d[a]
        W = W + Poly({tuple(sorted(d.items())): coef})
    return cancel(W), a


class Entry:
    def __init__(self, **kw):
        self.__dict__.update(kw)


def rhs_model(ctx):
    """(func, [Entry(index, weight Poly, source text, conds, stmt, loop, problems)], final stores)"""
    cache = ctx.__dict__.get('_rhs_model')
    if cache is not None:
        return cache
    f, paths = _paths(ctx, RHS)
    entries = []
    finals = []
    for p in paths:
        vec = None
        for ev in p.events:
            if ev[0] == 'store' and ev[1] == 'self.rhs':
                vec = ev[2]
                finals.append((p, ev[2], ev[3]))
        for ev in p.events:
            if ev[0] != 'store' or '[' not in ev[1] or ev[1].startswith('self.'):
                continue
            mo = re.match(r'^(\w+)\[(.*)\]$', ev[1])
            if not mo:
                continue
            for conds, val in _fork_ifexp(ev[2], tuple(c for c in p.conds)):
                probs = []
                W = src = None
                # rhs[i] += term  (the element was zero or holds the other sources on that pulse)
                if isinstance(val, ast.BinOp) and isinstance(val.op, ast.Add) and (
                        (isinstance(val.left, ast.Name) and val.left.id == '_old') or
                        (isinstance(val.left, ast.Subscript) and norm(val.left.slice) == mo.group(2) and not any(
                            isinstance(n_, ast.Attribute) and n_.attr == 'voltage' for n_ in ast.walk(val.left)))):
                    val = val.right
                try:
                    pol = cancel(poly_roles(val, {}))
                    r = _divide_out(pol, lambda v: v == 'voltage')
                    if r is None:
                        probs.append('stored value %s is not (coefficient) * <source>.voltage with the voltage '
                                     'appearing exactly once and bare' % norm(val)[:80])
                    else:
                        W = r[0]
                except (ValueError, ZeroDivisionError) as e:
                    probs.append('stored value not understood: %s' % e)
                vs = [n for n in ast.walk(val) if isinstance(n, ast.Attribute) and n.attr == 'voltage']
                src = norm(vs[0].value) if vs else None
                entries.append(Entry(vector=mo.group(1), index=mo.group(2), weight=W, source=src, conds=conds,
                                     stmt=ev[3], loops=ev[4], problems=probs, value=val, path=p))
    res = (f, entries, finals, paths)
    ctx.__dict__['_rhs_model'] = res
    return res


def load_model(ctx):
    """(func, [Entry(i, j, weight Poly, accumulates, payload call, conds, stmt, loops, problems)], paths)"""
    cache = ctx.__dict__.get('_load_model')
    if cache is not None:
        return cache
    f, paths = _paths(ctx, LOADS)
    entries = []
    for p in paths:
        for ev in p.events:
            if ev[0] != 'store' or not ev[1].startswith('self.Z['):
                continue
            key = ev[1]
            idx = re.findall(r'\[((?:[^\[\]]|\[[^\[\]]*\]|\[(?:[^\[\]]|\[[^\[\]]*\])*\])*)\]', key[len('self.Z'):])
            if len(idx) == 1 and idx[0].startswith('(') and idx[0].endswith(')'):
                try:
                    t = ast.parse(idx[0], mode='eval').body
                    if isinstance(t, ast.Tuple):
                        idx = [norm(x) for x in t.elts]
                except SyntaxError:
                    pass
            elif len(idx) == 1:
                try:
                    t = ast.parse('(%s,)' % idx[0], mode='eval').body
                    if isinstance(t, ast.Tuple) and len(t.elts) >= 2:
                        idx = [norm(x) for x in t.elts]
                except SyntaxError:
                    pass
            for conds, val in _fork_ifexp(ev[2], tuple(c for c in p.conds)):
                probs = []
                W = None
                acc = False
                payload = None
                # value = old element + term
                old_txts = {'self.Z[%s][%s]' % tuple(idx[:2]), 'self.Z[%s, %s]' % tuple(idx[:2]),
                            'self.Z[(%s, %s)]' % tuple(idx[:2])} if len(idx) >= 2 else set()
                term = None
                if isinstance(val, ast.BinOp) and isinstance(val.op, ast.Add):
                    if norm(val.left) in old_txts | {'_old'}:
                        acc, term = True, val.right
                    elif norm(val.right) in old_txts | {'_old'}:
                        acc, term = True, val.left
                if term is None:
                    term = val
                imps = [n for n in ast.walk(term) if isinstance(n, ast.Call) and isinstance(n.func, ast.Attribute)
                        and n.func.attr == 'impedance']
                if len(imps) == 1:
                    payload = imps[0]
                try:
                    pol = cancel(poly_roles(term, {}))
                    r = _divide_out(pol, lambda v: v.startswith('impedance('))
                    if r is None:
                        probs.append('added term %s is not (coefficient) * <load>.impedance(...)' % norm(term)[:80])
                    else:
                        W = r[0]
                except (ValueError, ZeroDivisionError) as e:
                    probs.append('added term not understood: %s' % e)
                entries.append(Entry(index=idx, weight=W, accumulates=acc, payload=payload, conds=conds, stmt=ev[3],
                                     loops=ev[4], problems=probs, value=val, path=p))
    res = (f, entries, paths)
    ctx.__dict__['_load_model'] = res
    return res


def grounded(conds):
    """the tests on `<pulse>.ground.any()` passed on the path: (pulse text, value) list"""
    out = []
    for t, b in conds:
        if not isinstance(b, bool):
            continue
        for part in re.split(r' and | or ', t):
            part = part.strip()
            while part.startswith('(') and part.endswith(')') and not part.endswith('.any()'):
                part = part[1:-1].strip()
            if part.endswith('.ground.any()'):
                out.append((part[:-len('.ground.any()')], b if ' or ' not in t else None, t))
    return out


def doubled(conds):
    """True / False: is this the branch taken for a pulse on a grounded end?  (a conjunction
    `<p>.ground.any() and self.media is not None` being true, or the bare test being true)"""
    for t, b in conds:
        if isinstance(b, bool) and '.ground.any()' in t:
            if b and ' or ' not in t:
                return True
    return False


def carried_weight_names(ctx, q):
    """[(function, name, store stmt)]: a name used in an element store inside a loop whose reaching
    definitions lie partly inside the loop body and partly before the loop - it is initialised once
    and modified for some elements, so what one element did to it is seen by the following ones
    (all definitions inside: recomputed per element; all outside: a loop-invariant constant)"""
    from ..rules import self_closure
    out = []
    for g in self_closure(ctx, ctx.func(q)):
        fl = ctx.flow(g)
        for lp in walk_no_nested(g.node):
            if not isinstance(lp, (ast.For, ast.While)):
                continue
            hid = fl.cfg.node_of(lp)
            if hid is None or hid not in fl.cfg.loops:
                continue
            body_ids = fl.cfg.loops[hid][0]
            loop_targets = {n.id for n in ast.walk(lp.target) if isinstance(n, ast.Name)} if isinstance(lp, ast.For) else set()
            for n in walk_no_nested(lp):
                if not isinstance(n, (ast.Assign, ast.AugAssign)):
                    continue
                tg = n.targets[0] if isinstance(n, ast.Assign) else n.target
                if not isinstance(tg, ast.Subscript):
                    continue
                nid = fl.node_id_of(n)
                if nid is None:
                    continue
                for x in ast.walk(n.value):
                    if not (isinstance(x, ast.Name) and x.id in fl.rd.names) or x.id in loop_targets:
                        continue
                    ds = [d for d in fl.def_exprs(x.id, nid) if d[0] in ('assign', 'aug')]
                    inside = [d for d in ds if d[2] in body_ids]
                    outside = [d for d in ds if d[2] not in body_ids]
                    if inside and outside:
                        out.append((g, x.id, n))
    return out
