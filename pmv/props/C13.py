"""C13  Segmentation tiles each object; tapers, arcs, helices, transforms as documented.

Decided:
 D1 R-PAIR   exactly n segments / n+1 end points: each segmentation loop runs over range(n) (or
             over the generated pairs) and creates exactly one segment (end point, yielded pair)
             per iteration on every path; curves add the one closing point after the loop; the
             segment list is reset before it is filled; consecutive taper pairs share their point
             and the last pair ends at p2 itself.
 D2 R-SIB    one-sided taper from the other end = taper of the swapped end points, reversed and
             swapped back; compute_taper1_segments passes end = segtype - 1.
 D3          transformations refuse to run after segmentation (assert); scale multiplies the
             radius (shared with C05).
Not decided: growth ratio <= 2.1, min/max limits, on-curve placement, uniform angles (numeric).
"""
import ast
from ..model import AnalysisError, walk_no_nested, norm, dotted, parent
from ..rules import loops_in, loop_reaches_on_all_paths, assigns_to_attr, first_touch_is_plain_assign


def is_append_to(n, target):
    s = n.stmt
    return n.kind == 'stmt' and isinstance(s, ast.Expr) and isinstance(s.value, ast.Call) and \
        isinstance(s.value.func, ast.Attribute) and s.value.func.attr == 'append' and \
        norm(s.value.func.value) == target


def has_yield(n):
    return n.stmt is not None and n.kind == 'stmt' and any(isinstance(x, ast.Yield) for x in ast.walk(n.stmt))


def run(ctx, ck):
    m = ctx.model
    ck.rule('R-PAIR.one-per-iteration', 'segmentation loop over n creates exactly one segment per iteration')
    ck.rule('R-PAIR.closing-point', 'curves: n points in the loop + one closing end point')
    ck.rule('R-FRESH.segments', 'segment list reset before being filled')
    ck.rule('R-PAIR.chain', 'consecutive segments share their end point; last ends at p2')
    ck.rule('R-SIB.taper-mirror', 'taper from end 2 = mirrored taper from end 1')
    ck.rule('R-ASSERT.not-segmented', 'transformations assert that the object is not yet segmented')

    # ---------------------------------------------------------------- equal segmentation
    # the segmenting loop as a state transformer (one iteration walked symbolically; helpers that
    # create / append the segment and generators handing out the end points are looked through)
    from ..symx import SymExec, loop_transformer, Path, simplify, copy_replace
    from ..poly import poly_roles, cancel, Poly
    f = m.func('mininec.Wire.compute_equal_segments')
    ls = [l for l in f.body() if isinstance(l, ast.For)]
    ck.floor('loops in compute_equal_segments', len(ls), 1)
    l = ls[0]
    pre, carried, bpaths, post = loop_transformer(ctx, f, l, bind_loops=True, objects=True, effects=True)
    bpaths = [p_ for p_ in bpaths if p_.end != 'raise']
    # number of iterations = self.n_segments
    it_closed = SymExec(ctx, f, bind_loops=True).subst(l.iter, pre)

    def n_iter(it_):
        if isinstance(it_, ast.Call) and isinstance(it_.func, ast.Name) and it_.func.id == '_each' and len(it_.args) == 2:
            return n_iter(it_.args[1])
        if isinstance(it_, ast.Call) and isinstance(it_.func, ast.Name) and it_.func.id == 'enumerate' and len(it_.args) == 1:
            return n_iter(it_.args[0])
        if isinstance(it_, ast.Call) and isinstance(it_.func, ast.Name) and it_.func.id == 'range' and not it_.keywords:
            if len(it_.args) == 1:
                return cancel(poly_roles(it_.args[0], {}))
            if len(it_.args) == 2:
                return cancel(poly_roles(it_.args[1], {}) - poly_roles(it_.args[0], {}))
        raise ValueError('iterations of %s' % norm(it_)[:60])
    try:
        niter = n_iter(it_closed)
        ok_n = cancel(niter - poly_roles(ast.parse('self.n_segments', mode='eval').body, {})).t == {}
        n_txt = repr(niter)
    except ValueError as e_:
        ok_n, n_txt = False, str(e_)
    created = []
    for p_ in bpaths:
        cr = [ev for ev in p_.events if ev[0] == 'create' and norm(ev[2].func) == 'Segment']
        ap = [ev for ev in p_.events if ev[0] == 'call' and isinstance(ev[1].func, ast.Attribute) and
              ev[1].func.attr == 'append' and norm(ev[1].func.value) == 'self.segments']
        created.append((len(cr), len(ap), cr, ap, p_))
    counts = sorted({(c_[0], c_[1]) for c_ in created})
    one = counts == [(1, 1)] and all(norm(c_[3][0][1].args[0]) == c_[2][0][1] for c_ in created)
    ck.ob('R-PAIR.one-per-iteration', f.qual, ok_n and one, f.loc(l),
          'for %s in %s: %s iterations; (segments created, appended) per iteration %s' % (
              norm(l.target), norm(l.iter)[:40], n_txt, counts))
    # chain: the segment runs from the running point to the new end point, which becomes the running
    # point; the first one starts at (a copy of) p1; the k-th end point is p1 + (k + 1) * diff / n
    ok, why = bool(created) and one, 'segment k starts where segment k-1 ended; first starts at p1'
    if ok:
        sx_ = SymExec(ctx, f, bind_loops=True)
        probe = Path({}, ())
        sx_._bind_loop(l.target, it_closed, probe)
        tnames = [n_.id for n_ in ast.walk(l.target) if isinstance(n_, ast.Name)]
        elem = {k_: simplify(v_) for k_, v_ in probe.env.items() if k_ in tnames}
        ks_ = sorted({n_.id for v_ in elem.values() for n_ in ast.walk(v_) if isinstance(n_, ast.Name) and n_.id.startswith('_k')})
        for nc, na, cr, ap, p_ in created:
            call = cr[0][2]
            a0, a1 = call.args[0], call.args[1]
            run = [c_ for c_ in carried if norm(a0) == c_]
            if len(run) != 1:
                ok, why = False, 'the segment does not start at the running point: Segment(%s, ...)' % norm(a0)[:40]
                break
            P = run[0]
            nxt = p_.env.get(P)
            if nxt is None or norm(nxt) != norm(a1):
                ok, why = False, 'segment ends at %s but the next one starts at %s' % (norm(a1)[:50], norm(nxt)[:50] if nxt is not None else P)
                break
            if P not in pre or norm(pre[P]) != 'np.copy(self.p1)':
                ok, why = False, 'the first segment starts at %s, not at a copy of p1' % (norm(pre[P])[:50] if P in pre else '?')
                break
            # end point of iteration k (0-based)
            try:
                e1 = simplify(copy_replace(a1, lambda n_: elem.get(n_.id) if isinstance(n_, ast.Name) else None))
                if len(ks_) != 1:
                    raise ValueError('loop element not understood: %s' % sorted(elem))
                K = ks_[0]
                want = cancel(poly_roles(ast.parse(
                    'np.copy(self.p1) + (%s + 1) * (self.diff / self.wire_len) * (self.wire_len / self.n_segments)' % K,
                    mode='eval').body, {}))
                got = cancel(poly_roles(e1, {}))
                if cancel(got - want).t != {}:
                    ok, why = False, 'end point of segment k is %s, expected p1 + (k + 1) * diff / n_segments' % norm(e1)[:90]
                    break
            except (ValueError, ZeroDivisionError) as e_:
                ok, why = False, 'end point not understood: %s' % e_
                break
    ck.ob('R-PAIR.chain', f.qual, ok, f.loc(l), why)

    cs = m.func('mininec.Wire.compute_segments')
    cfl = ctx.flow(cs)
    resets = assigns_to_attr(cs, 'self.segments')
    ok = len(resets) == 1 and norm(resets[0].value) == '[]'
    if ok:
        rid = cfl.node_id_of(resets[0])
        for name in ('compute_equal_segments', 'compute_taper1_segments', 'compute_taper2_segments'):
            for c in walk_no_nested(cs.node):
                if isinstance(c, ast.Call) and isinstance(c.func, ast.Attribute) and c.func.attr == name:
                    ok = ok and cfl.cfg.must_pass(cfl.node_id_of(c), {rid})
    ck.ob('R-FRESH.segments', cs.qual, ok, cs.loc(), 'self.segments = [] dominates every segmentation call')
    # fallback: taper failure -> equal segments with an empty list
    n_fb = 0
    for h in [x for x in walk_no_nested(cs.node) if isinstance(x, ast.ExceptHandler)]:
        txt = [norm(s) for s in h.body]
        ok = 'self.segtype = 0' in txt and 'self.compute_equal_segments()' in txt and \
            norm(h.type) == 'Taper_Error'
        ck.ob('R-FRESH.segments', '%s|fallback#%d' % (cs.qual, n_fb), ok, cs.loc(h),
              'Taper_Error falls back to equal segmentation: %s' % txt)
        n_fb += 1
    ck.floor('taper fallbacks', n_fb, 1)

    # ---------------------------------------------------------------- curves
    # Decided on the symbolic walk of the constructors: on every path the array finally stored in
    # self.segends is one closed expression  np.array([P(k) for k in range(n_segments)] + [closing]).
    # P and the closing point are compared as polynomials over role-named atoms (cos(<arg>), abs(..),
    # mod(..,..) are atoms over the canonical form of their arguments; sin^2 = 1 - cos^2).
    import re
    from ..symx import SymExec, copy_replace
    from ..poly import poly_roles, cancel, reduce_trig, Poly
    # the number of segments is the requested count, never the outcome of a floating-point range
    ck.rule('R-GRID.count-based', 'segment end points are generated from an integer counter, never from a float-stepped range')
    from .C16 import judge_range_call, grid_calls
    n_rng = 0
    stop_ = False
    for q_ in ('mininec.Arc.__init__', 'mininec.Helix.__init__', 'mininec.Wire.compute_equal_segments',
               'mininec.Curve.compute_segments', 'taper.taper1', 'taper.taper2'):
        g_ = m.funcs.get(q_)
        if g_ is None:
            continue
        fl_ = ctx.flow(g_)
        for c_ in grid_calls(g_):
            if dotted(c_.func) == 'range':
                ok_, why_ = True, 'range(): the builtin only takes integers'
            else:
                ok_, why_ = judge_range_call(fl_, c_, fl_.node_id_of(c_))
            ck.ob('R-GRID.count-based', '%s|%s' % (q_, norm(c_)[:50]), ok_, g_.loc(c_), why_)
            n_rng += 1
            stop_ = stop_ or not ok_
    ck.floor('range constructions in the segmentation code', n_rng, 3)
    if stop_:
        return      # (the curve rules below would only report that they no longer find their loop)
    ck.rule('R-SIB.closing-point', 'closing end point of a curve = its loop formula at i = n_segments')
    ck.rule('R-POLY.on-curve', 'arc / helix end points satisfy the curve equation; angle is linear in the index')

    def curve_points(q):
        """[(loop point [x,y,z] ASTs or None, index name, iterable text, closing point or None, problems)] per path"""
        g = m.func(q)
        out = []
        for p_ in SymExec(ctx, g, bind_loops=True, max_paths=5000).run():
            if p_.end == 'raise':
                continue
            fin = [v_ for k_, v_, st_ in p_.stores if k_ == 'self.segends']
            if not fin:
                out.append((None, None, None, None, ['self.segends is not assigned on a path']))
                continue
            v = fin[-1]
            probs = []
            if not (isinstance(v, ast.Call) and (dotted(v.func) or '').endswith('array') and v.args and
                    isinstance(v.args[0], ast.List)):
                out.append((None, None, None, None, ['self.segends = %s is not an array of the collected points' % norm(v)[:60]]))
                continue
            loop_pts, closing = [], []
            ent = [t_ for k_, t_ in p_.conds if k_ == 'loop']
            for pos, x_ in enumerate(v.args[0].elts):
                it_ = ent[-1] if ent else None
                if isinstance(x_, ast.Starred) and isinstance(x_.value, ast.Call) and norm(x_.value.func) == '_each':
                    it_ = norm(x_.value.args[1])
                    x_ = x_.value.args[0]
                ks = set(re.findall(r'_k\d+', norm(x_)))
                if ks:
                    loop_pts.append((x_, sorted(ks)[0], it_, pos))
                else:
                    closing.append((x_, pos))
            skipped = any(k_ == 'loop-skipped' for k_, t_ in p_.conds)
            if skipped and not loop_pts:
                continue            # zero segments: not a curve
            if len(loop_pts) != 1:
                probs.append('%d end points per iteration' % len(loop_pts))
            if len(closing) != 1 or (loop_pts and closing and closing[0][1] < loop_pts[0][3]):
                probs.append('%d closing point(s) after the loop' % len(closing))
            lp = loop_pts[0] if loop_pts else (None, None, None, None)
            out.append((lp[0], lp[1], lp[2], closing[0][0] if closing else None, probs))
        return g, out

    def coords(pt):
        if isinstance(pt, (ast.List, ast.Tuple)) and len(pt.elts) == 3:
            return [cancel(poly_roles(e_, {})) for e_ in pt.elts]
        raise ValueError('point %s is not [x, y, z]' % norm(pt)[:50])

    def at_index(pt, kname, value_txt):
        val = ast.parse(value_txt, mode='eval').body
        return copy_replace(pt, lambda n_: val if isinstance(n_, ast.Name) and n_.id == kname else None)

    def trig_pairs(p_):
        vs = {v_ for mono in p_.t for v_, e_ in mono}
        return [(v_, 'sin(' + v_[4:]) for v_ in vs if v_.startswith('cos(')] + \
               [('cos(' + v_[4:], v_) for v_ in vs if v_.startswith('sin(') and ('cos(' + v_[4:]) not in vs]

    def split_trig(p_):
        """p = A * trig(arg): (A, 'cos'|'sin', arg text) or None"""
        tv = {v_ for mono in p_.t for v_, e_ in mono if v_.startswith(('cos(', 'sin('))}
        if len(tv) != 1:
            return None
        t_ = sorted(tv)[0]
        A = Poly()
        for mono, coef in p_.t.items():
            d = dict(mono)
            if d.get(t_) != 1:
                return None
            del d[t_]
            A = A + Poly({tuple(sorted(d.items())): coef})
        return cancel(A), t_[:3], t_[4:-1]

    def degree_in(p_, var):
        return max([dict(mono).get(var, 0) for mono in p_.t] + [0])

    for q in ('mininec.Arc.__init__', 'mininec.Helix.__init__'):
        g, pts = curve_points(q)
        ck.floor('paths building the end points in ' + q, len([x_ for x_ in pts if x_[0] is not None]), 1)
        probs = sorted({p_ for x_ in pts for p_ in x_[4]})
        its = sorted({x_[2] for x_ in pts if x_[0] is not None})
        ok = not any('per iteration' in p_ or 'not an array' in p_ or 'not assigned' in p_ for p_ in probs) and \
            its == ['range(n_segments)']
        ck.ob('R-PAIR.one-per-iteration', q, ok, g.loc(),
              'one end point per element of %s' % its if ok else 'end points per iteration: %s over %s' % (probs, its))
        ok = not any('closing' in p_ for p_ in probs)
        ck.ob('R-PAIR.closing-point', q, ok, g.loc(), 'one closing point appended after the loop points' if ok else str(probs))
        ns = assigns_to_attr(g, 'self.n_segments')
        ck.ob('R-PAIR.one-per-iteration', q + '|n_segments', len(ns) == 1 and norm(ns[0].value) == 'n_segments',
              g.loc(), 'self.n_segments is the requested count')
        # closing point == the loop formula evaluated at the end of the curve (i = n_segments)
        bad = None
        n_cmp = 0
        for lp, kname, it_, cl, pr_ in pts:
            if lp is None or cl is None:
                continue
            try:
                end = coords(at_index(lp, kname, 'n_segments'))
                clc = coords(cl)
                n_cmp += 1
                for ax, (e1, e2) in zip('xyz', zip(end, clc)):
                    if cancel(e1 - e2).t != {} and bad is None:
                        bad = 'closing %s is %r, the loop formula at the end of the curve gives %r' % (ax, e2, e1)
            except ValueError as e_:
                bad = bad or str(e_)
        ck.ob('R-SIB.closing-point', q, bad is None and n_cmp > 0, g.loc(),
              'closing end point = loop formula at i = n_segments (%d paths)' % n_cmp if bad is None else bad)
        # curve equation, for the loop points and the closing point
        n_pt = 0
        for which in ('loop', 'closing'):
            bad = None
            for lp, kname, it_, cl, pr_ in pts:
                pt = lp if which == 'loop' else cl
                if pt is None:
                    continue
                try:
                    x_, y_, z_ = coords(pt)
                    n_pt += 1
                    if q.startswith('mininec.Arc'):
                        lhs = reduce_trig(x_ * x_ + z_ * z_, trig_pairs(x_ * x_ + z_ * z_))
                        if cancel(lhs - Poly.var('radius') * Poly.var('radius')).t != {} or y_.t != {}:
                            bad = bad or 'x^2 + z^2 = %r, y = %r: not on the circle of the given radius in the x-z plane' % (lhs, y_)
                    else:
                        sx, sy = split_trig(x_), split_trig(y_)
                        if sx is None or sy is None or sx[2] != sy[2] or {sx[1], sy[1]} != {'cos', 'sin'}:
                            bad = bad or 'x = %r, y = %r are not radius * cos / sin of one angle' % (x_, y_)
                            continue
                        A, B = sx[0], sy[0]
                        lhs = x_ * x_ * B * B + y_ * y_ * A * A
                        if cancel(reduce_trig(lhs, trig_pairs(lhs)) - A * A * B * B).t != {}:
                            bad = bad or '(x/a)^2 + (y/b)^2 != 1'
                        if which == 'loop':
                            # semi-axes interpolate linearly from (rx1, ry1) to (rx2, ry2), z from 0 to |length|
                            e0 = coords(at_index(lp, kname, '0'))
                            s0x, s0y = split_trig(e0[0]), split_trig(e0[1])
                            if s0x is None or s0y is None or cancel(s0x[0] * s0x[0] - Poly.var('rx1') * Poly.var('rx1')).t != {} \
                               or cancel(s0y[0] * s0y[0] - Poly.var('ry1') * Poly.var('ry1')).t != {}:
                                bad = bad or 'the helix does not start with the semi-axes (rx1, ry1)'
                            e1 = coords(at_index(lp, kname, 'n_segments'))
                            if degree_in(z_, kname) > 1 or e0[2].t != {} or \
                               cancel(e1[2] - cancel(poly_roles(ast.parse('abs(length)', mode='eval').body, {}))).t != {}:
                                bad = bad or 'z does not run linearly from 0 to |length|: %r' % z_
                            if degree_in(A, kname) > 1 or degree_in(B, kname) > 1:
                                bad = bad or 'semi-axes are not linear in the index'
                        # angle = handedness * (z mod |turnlen|) / |turnlen| * 2 pi with z of the same point
                        zt = norm(pt.elts[2])
                        want = cancel(poly_roles(ast.parse(
                            'sign(length * turnlen) * ((%s) %% abs(turnlen)) / abs(turnlen) * 2 * pi' % zt, mode='eval').body, {}))
                        if sx[2] != repr(want):
                            bad = bad or 'angle is %s, expected handedness * (z mod |turnlen|) / |turnlen| * 2 pi = %r' % (sx[2][:80], want)
                except (ValueError, ZeroDivisionError) as e_:
                    bad = bad or 'point not understood: %s' % e_
            ck.ob('R-POLY.on-curve', '%s|%s' % (q, which), bad is None, g.loc(),
                  'points satisfy the curve equation on all paths' if bad is None else bad)
        ck.floor('curve points examined in ' + q, n_pt, 1)
    # Arc: the angle is linear in the index, from ang1 to ang2 (degrees -> radians)
    g, pts = curve_points('mininec.Arc.__init__')
    bad = None
    for lp, kname, it_, cl, pr_ in pts:
        if lp is None:
            continue
        try:
            x_ = coords(lp)[0]
            sx = split_trig(x_)
            x0 = split_trig(coords(at_index(lp, kname, '0'))[0])
            x1 = split_trig(coords(at_index(lp, kname, 'n_segments'))[0])
            a0 = repr(cancel(poly_roles(ast.parse('ang1 / 180 * pi', mode='eval').body, {})))
            a1 = repr(cancel(poly_roles(ast.parse('ang2 / 180 * pi', mode='eval').body, {})))
            if sx is None or x0 is None or x1 is None or x0[2] != a0 or x1[2] != a1:
                bad = bad or 'angle runs from %s to %s, not from ang1 to ang2 (radians)' % (x0 and x0[2], x1 and x1[2])
            # linear in the index: the argument polynomial has degree <= 1 in k
            arg = None
            for n_ in ast.walk(lp):
                if isinstance(n_, ast.Call) and (dotted(n_.func) or '').endswith('cos') and n_.args:
                    arg = cancel(poly_roles(n_.args[0], {}))
            if arg is None or degree_in(arg, kname) != 1:
                bad = bad or 'angle is not linear in the index: %r' % arg
        except (ValueError, ZeroDivisionError) as e_:
            bad = bad or str(e_)
    ck.ob('R-POLY.on-curve', 'mininec.Arc.__init__|uniform-angle', bad is None, g.loc(),
          'angle = a1 + (a2 - a1) / n_segments * i' if bad is None else bad)
    # on every path the first thing done to self.segments is the plain reset, before any append
    # (appends through a helper included)
    cc = m.func('mininec.Curve.compute_segments')
    curve_pending = True
    bad = None
    n_app = 0
    for p_ in SymExec(ctx, cc, bind_loops=True, objects=True, effects=True, max_paths=2000).run():
        if p_.end == 'raise':
            continue
        first = None
        for ev in p_.events:
            if ev[0] == 'store' and ev[1] == 'self.segments':
                if isinstance(ev[2], ast.List) and ev[2].elts:
                    # the list is assigned as a whole, freshly built (a comprehension over the segment ends): reset and
                    # fill in one statement
                    first = first or 'reset'
                    n_app += 1
                else:
                    first = first or ('reset' if norm(ev[2]) in ('[]', 'list()') else 'store %s' % norm(ev[2])[:30])
            elif ev[0] == 'call' and isinstance(ev[1].func, ast.Attribute) and norm(ev[1].func.value) == 'self.segments':
                first = first or ev[1].func.attr
                if ev[1].func.attr in ('append', 'extend', 'insert'):
                    n_app += 1
        if first not in (None, 'reset'):
            bad = bad or first
    ck.ob('R-FRESH.segments', cc.qual, bad is None and n_app >= 1, cc.loc(),
          'self.segments reset before the appends' if bad is None else 'self.segments is first touched by %s' % bad)

    # ---------------------------------------------------------------- tapers
    # the generating loop as a state transformer: one pair per iteration, every pair starts at the
    # running point p, ends at p + inc (which becomes the next p) or, in the last iteration, at p2
    from ..symx import loop_transformer
    from ._creation import aeval as small_eval, Undecidable

    def holds(conds, env):
        """do the tests that only involve the loop index and n hold for this iteration?"""
        for t_, b_ in conds:
            if not isinstance(b_, bool):
                continue
            try:
                v_ = small_eval(ast.parse(t_, mode='eval').body, env)
            except (Undecidable, SyntaxError, KeyError, TypeError):
                continue
            if bool(v_) != b_:
                return False
        return True
    for q in ('taper.taper1', 'taper.taper2'):
        g = m.func(q)
        ls = [l for l in g.body() if isinstance(l, ast.For) and any(isinstance(x, ast.Yield) for x in ast.walk(l))]
        ck.floor('yielding loops in ' + q, len(ls), 1)
        l = ls[-1]
        lv = l.target.id if isinstance(l.target, ast.Name) else None
        ok_iter = norm(l.iter) == 'range(n)' and lv is not None
        pre, carried, bpaths, post = loop_transformer(ctx, g, l)
        bpaths = [p_ for p_ in bpaths if p_.end != 'raise']
        counts = sorted({sum(1 for ev in p_.events if ev[0] in ('yield', 'yield-from')) for p_ in bpaths})
        ck.ob('R-PAIR.one-per-iteration', q, ok_iter and counts == [1], g.loc(l),
              'exactly one pair yielded per iteration of range(n): %s' % counts)
        bad = None
        n_last = n_mid = 0
        N = 6
        for iv, last in ((0, False), (2, False), (N - 2, False), (N - 1, True)):
            env_ = {lv: iv, 'n': N}
            for p_ in bpaths:
                if not holds(p_.conds, env_):
                    continue
                ys = [ev for ev in p_.events if ev[0] == 'yield']
                if len(ys) != 1 or not isinstance(ys[0][1], ast.Tuple) or len(ys[0][1].elts) != 2:
                    bad = bad or 'iteration %d of %d yields %s' % (iv, N, [norm(y_[1]) for y_ in ys])
                    continue
                a_, b_ = ys[0][1].elts
                run_pt = [c_ for c_ in carried if norm(a_) == c_]
                if len(run_pt) != 1:
                    bad = bad or 'the pair does not start at the running point: %s' % norm(a_)
                    continue
                P = run_pt[0]
                if last:
                    n_last += 1
                    if norm(b_) != 'p2':
                        bad = bad or 'the last pair ends at %s, not at p2' % norm(b_)
                else:
                    n_mid += 1
                    nxt = p_.env.get(P)
                    if nxt is None or norm(nxt) != norm(b_):
                        bad = bad or 'pair ends at %s but the next pair starts at %s' % (norm(b_)[:50], norm(nxt)[:50] if nxt is not None else P)
                if P not in pre or norm(pre[P]) != 'p1':
                    bad = bad or 'the first pair starts at %s, not at p1' % (norm(pre[P]) if P in pre else '?')
        ck.ob('R-PAIR.chain', q, bad is None and n_last >= 1 and n_mid >= 1, g.loc(l),
              'pairs (p, p+inc) chain from p1; the last pair is (p, p2)' if bad is None else bad)
    # segment producers: one Segment per generated pair / consecutive end points, appended once, indexed by
    # the number of segments so far
    def one_segment_per_element(q, want_iter, want_ends):
        """on every path: the Segment creations happen once per element of the wanted collection (in a
        statement loop or as the element of a comprehension), each created segment goes into self.segments once"""
        g = m.func(q)
        from ..symx import SymExec

        def base_iter(t_):
            try:
                e_ = ast.parse(t_, mode='eval').body
            except SyntaxError:
                return t_
            while isinstance(e_, ast.Call) and isinstance(e_.func, ast.Name) and e_.func.id in ('enumerate', 'list', 'tuple', 'iter') and e_.args:
                e_ = e_.args[0]
            return re.sub(r'_k\d+', '_k', norm(e_))
        paths = [p_ for p_ in SymExec(ctx, g, bind_loops=True, objects=True, effects=True, max_paths=2000).run()
                 if p_.end != 'raise']
        bad = None
        n_ent = 0
        for p_ in paths:
            cre = [ev for ev in p_.events if ev[0] == 'create' and norm(ev[2].func) == 'Segment']
            skipped = [t_ for k_, t_ in p_.conds if k_ == 'loop-skipped']
            if not cre:
                if any(k_ == 'loop' and re.match(want_iter, base_iter(t_)) for k_, t_ in p_.conds):
                    bad = bad or 'an element of the collection gets no segment on the path %s' % (
                        [c_ for c_ in p_.conds if c_[0] != 'loop'][-2:],)
                continue
            if any(not ev[4] for ev in cre):
                bad = bad or 'a segment is created outside the loop'
                continue
            n_ent += 1
            its = {base_iter(ev[4][-1]) for ev in cre}
            for it_ in its:
                if not re.match(want_iter, it_):
                    bad = bad or 'iterates %s' % it_
            if len(cre) != 1:
                bad = bad or '%d segments per element' % len(cre)
                continue
            tok, call = cre[0][1], cre[0][2]
            apps = 0
            for ev in p_.events:
                if ev[0] == 'call' and isinstance(ev[1], ast.Call) and isinstance(ev[1].func, ast.Attribute) and \
                   ev[1].func.attr in ('append', 'extend') and norm(ev[1].func.value) == 'self.segments':
                    apps += sum(1 for x_ in ast.walk(ev[1]) if isinstance(x_, ast.Name) and x_.id == tok)
                elif ev[0] == 'store' and ev[1] == 'self.segments' and isinstance(ev[2], ast.List):
                    # the list assigned as a whole: each created segment is an entry of it
                    apps += sum(1 for x_ in ast.walk(ev[2]) if isinstance(x_, ast.Name) and x_.id == tok)
            if apps != 1:
                bad = bad or 'the segment is appended %d times' % apps
            ends = [re.sub(r'_k\d+', '_k', norm(a_)) for a_ in call.args[:2]]
            if want_ends is not None and not all(re.match(w_, e_) for w_, e_ in zip(want_ends, ends)):
                bad = bad or 'segment ends are %s' % ends
            if len(call.args) >= 3 and norm(call.args[2]) != 'self':
                bad = bad or 'segment owner is %s' % norm(call.args[2])
        ck.ob('R-PAIR.one-per-iteration', q, bad is None and n_ent >= 1, g.loc(),
              'one segment per element of the generated end points, appended once' if bad is None else bad)
    GEN = r'^taper%d\(self\.p1, self\.p2, self\.n_segments, self\.r(, .*)?\)$'
    one_segment_per_element('mininec.Wire.compute_taper1_segments', GEN % 1, [r'.*\[_k\]\[0\]$', r'.*\[_k\]\[1\]$'])
    one_segment_per_element('mininec.Wire.compute_taper2_segments', GEN % 2, [r'.*\[_k\]\[0\]$', r'.*\[_k\]\[1\]$'])
    # consecutive points of self.segends: (segends[k], segends[k + 1])
    one_segment_per_element('mininec.Curve.compute_segments',
                            r'^(pairwise\(self\.segends\)|zip\(self\.segends(\[:-1\])?, self\.segends\[1:\]\))$',
                            [r'^self\.segends\[_k\]$', r'^self\.segends\[(_k \+ 1|1 \+ _k)\]$'])

    # ---------------------------------------------------------------- D2 mirror
    # taper from the other end: what taper1 hands out for end != 0 is, as a closed sequence, the pairs of
    # taper1(p2, p1, ..., end=0) in reverse order with the two points of every pair swapped
    from ..symx import generator_sequences, _is_each
    t1 = m.func('taper.taper1')
    pnames = list(t1.params)
    seqs = [(c_, s_) for c_, s_ in generator_sequences(ctx, t1) if any(t_ == 'end' and b_ is True for t_, b_ in c_ if isinstance(b_, bool))]
    ok = bool(seqs)
    why = 'no path for end != 0' if not seqs else None
    n_each_ = 0
    for conds_, seq in seqs:
        if isinstance(seq, ast.List) and not seq.elts and any(k_ == 'loop-skipped' for k_, t_ in conds_):
            continue        # nothing to hand out
        if not _is_each(seq):
            ok, why = False, 'end != 0 hands out %s' % norm(seq)[:100]
            continue
        n_each_ += 1
        elt, it_ = seq.args
        src = it_
        rev = False
        while isinstance(src, ast.Call) and isinstance(src.func, ast.Name) and src.func.id in ('reversed', 'list', 'tuple') and len(src.args) == 1:
            rev = rev or src.func.id == 'reversed'
            src = src.args[0]
        if isinstance(src, ast.Subscript) and isinstance(src.slice, ast.Slice) and src.slice.lower is None and \
           src.slice.upper is None and norm(src.slice.step or ast.Constant(value=1)) == '-1':
            rev, src = True, src.value
            while isinstance(src, ast.Call) and isinstance(src.func, ast.Name) and src.func.id in ('list', 'tuple') and len(src.args) == 1:
                src = src.args[0]
        args_ok = False
        if isinstance(src, ast.Call) and isinstance(src.func, ast.Name) and src.func.id == 'taper1':
            got = {}
            for pn_, a_ in zip(pnames, src.args):
                got[pn_] = norm(a_)
            for kw_ in src.keywords:
                got[kw_.arg] = norm(kw_.value)
            want_ = {pnames[0]: pnames[1], pnames[1]: pnames[0]}
            for pn_ in pnames[2:]:
                want_[pn_] = pn_
            want_['end'] = '0'
            dflt = t1.defaults()
            args_ok = all(got.get(k_, norm(dflt[k_]) if k_ in dflt else None) == v_ for k_, v_ in want_.items())
        itx = norm(it_)
        swapped = re.sub(r'_k\d+', 'K', norm(elt)) == '(%s[K][1], %s[K][0])' % (itx, itx)
        if not (rev and args_ok and swapped):
            ok = False
            why = 'end != 0 hands out each %s of %s: not the reversed, pairwise swapped taper from the other end' % (
                re.sub(r'_k\d+', 'K', norm(elt))[:60], itx[:80])
    ok = ok and n_each_ >= 1
    ck.ob('R-SIB.taper-mirror', 'taper.taper1|mirror', ok, t1.loc(),
          why or 'end != 0: reversed taper1(p2, p1, ..., 0) with swapped pairs')
    g = m.func('mininec.Wire.compute_taper1_segments')
    # on every path of the symbolic walk (helpers, keyword bundles looked through) taper1 is called with end = segtype - 1
    from ..symx import SymExec
    sxg = SymExec(ctx, g, bind_loops=True, effects=True, depth=3, max_paths=2000)
    sxg.self_cls = 'Wire'
    ends_ = set()
    unresolved_ = False
    for p_ in sxg.run():
        if p_.end == 'raise':
            continue
        exprs_ = [ev[1] for ev in p_.events if ev[0] == 'call']
        for t_, b_ in p_.conds:
            if t_ in ('loop', 'loop-skipped') and isinstance(b_, str) and 'taper1(' in b_:
                try:
                    exprs_.append(ast.parse(b_, mode='eval').body)
                except SyntaxError:
                    pass
        calls_ = [x_ for e_ in exprs_ for x_ in ast.walk(e_)
                  if isinstance(x_, ast.Call) and isinstance(x_.func, ast.Name) and x_.func.id == 'taper1']
        if not calls_:
            ends_.add('<no call of taper1>')
        for c_ in calls_:
            if any(k_.arg is None for k_ in c_.keywords):
                unresolved_ = True
            kw_ = {k_.arg: k_.value for k_ in c_.keywords}
            e_ = kw_.get('end', c_.args[6] if len(c_.args) > 6 else None)
            ends_.add(norm(e_) if e_ is not None else '<end not given>')
    ok = ends_ == {'self.segtype - 1'}
    if unresolved_:
        # a keyword bundle whose keys the walk could not follow (filled by a generator / another dict): the
        # statements of the function (and the helpers it calls on self) are searched for `end=self.segtype - 1`
        from ..rules import self_closure
        ok = any('end=self.segtype - 1' in norm(s_) for h_ in self_closure(ctx, g) for s_ in h_.body())
        ends_ = {'(bundle not followed) end=self.segtype - 1 %s' % ('written' if ok else 'not written')}
    ck.ob('R-SIB.taper-mirror', g.qual + '|end=segtype-1', ok, g.loc(),
          'taper end passed as segtype - 1' if ok else 'taper1 is called with end = %s' % sorted(ends_))

    # ---------------------------------------------------------------- D3
    n = 0
    from ..symx import SymExec
    for cls in ('Wire', 'Curve'):
        for op in ('rotate', 'translate', 'scale'):
            g = m.resolve_method(cls, op)      # defined in the class or inherited; hooks resolved for the class
            if g is None:
                raise AnalysisError('anchor vanished: %s has no method %s' % (cls, op))
            gkey = 'mininec.%s.%s' % (cls, op)
            # on every path the object is asserted to be unsegmented before its geometry is touched
            bad = None
            npaths = 0
            sx_ = SymExec(ctx, g, effects=True, max_paths=2000, depth=3)
            sx_.self_cls = cls
            for p_ in sx_.run():
                if p_.end == 'raise':
                    continue
                npaths += 1
                first_store = None
                guard = None
                for i_, ev in enumerate(p_.events):
                    if ev[0] == 'store' and ev[1].startswith('self.') and first_store is None:
                        first_store = i_
                    if ev[0] == 'assert' and guard is None and any(
                            'segments' in t_ and b_ is False for t_, b_ in ev[1]):
                        guard = i_
                if guard is None:
                    bad = bad or 'no assertion that the object is unsegmented'
                elif first_store is not None and first_store < guard:
                    bad = bad or 'geometry is changed before the assertion'
            ck.ob('R-ASSERT.not-segmented', gkey, bad is None and npaths > 0, g.loc(),
                  'asserts `not segments` before touching the geometry (%d paths)' % npaths if bad is None else bad)
            n += 1
    ck.floor('transformation methods', n, 6)
    # a rotation / transformation matrix built in a loop starts from a fresh matrix in every iteration
    ck.rule('R-FRESH.loop-scratch', 'an array bound before a loop is not partly overwritten per iteration and read whole inside the loop')
    from ..rules import check_loop_scratch
    ck.floor('functions with loops in the geometry modules', check_loop_scratch(ctx, ck, 'R-FRESH.loop-scratch'), 20)
    # transformations act in sort-key order (shared with C05)
    ck.rule('R-ORDER.main', 'all rotations and translations are applied in one sequence sorted by their sort key')
    from ._mainorder import check_transform_order
    check_transform_order(ctx, ck, with_phases=False)
    ck.undecided += ['growth ratio <= 2.1 and min/max segment limits of tapers', 'points on the circle / helix',
                     'uniform angular steps, handedness']
