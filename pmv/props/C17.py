"""C17  Pulse addressing: sources and loads act on exactly the pulse the user named.

Decided:
 D1 R-KIND tag/position  register_source / register_load: the geo_tag parameter only feeds by_tag
           lookups, None tests and messages (never a position in the object sequence, never
           arithmetic); with a tag the object-relative number indexes that object's `pulses` list
           and the global `.idx` of that pulse is what is registered / loaded; without a tag the
           number is the global index itself; range checks precede the use.
 D2 R-KIND 0/1-based     every user-facing pulse / load number is converted exactly once: `- 1`
           on the way in (main), `+ 1` at every place a 0-based number is printed.
 D3        Geo_Container.compute_tags: non-positive and duplicate tags are rejected, automatic
           tags continue after the largest explicit tag, by_tag is filled for every object, the
           sequence is sorted by tag; positions `n` are assigned after sorting (order in
           Mininec.__init__); junction pulses are appended to the object being processed.
 D4        attach-to-all touches each pulse once (= C08-D5).
Not decided: that the junction pulse lands in the later-tagged object for every topology.
"""
import ast
import re
from ..model import AnalysisError, walk_no_nested, norm, dotted, parent, enclosing_stmt
from ..rules import loops_in, loop_reaches_on_all_paths, calls_in

ZERO_BASED_ATTRS = {'idx', 'geo_idx'}          # on pulses / excitations
ZERO_BASED_N = {'n'}                           # load.n, pulse.n (positions)
DEBUG_FUNCS = ('__str__', '__repr__', 'conn_as_str', 'geo_as_str', 'dump_matrix')


def classify_tag_use(n):
    """context of a Load of the geo_tag parameter"""
    p = parent(n)
    if isinstance(p, ast.Subscript) and p.slice is n and isinstance(p.value, ast.Attribute) and \
       p.value.attr == 'by_tag':
        return 'by_tag[]'
    if isinstance(p, ast.Call) and n in p.args and isinstance(p.func, ast.Attribute) and \
       p.func.attr == 'get' and isinstance(p.func.value, ast.Attribute) and p.func.value.attr == 'by_tag':
        return 'by_tag.get'
    if isinstance(p, ast.Compare) and any(isinstance(c, ast.Constant) and c.value is None
                                          for c in [p.left] + p.comparators):
        return 'none-test'
    if isinstance(p, ast.Compare) and len(p.ops) == 1 and isinstance(p.ops[0], (ast.In, ast.NotIn)) and \
       p.left is n and isinstance(p.comparators[0], ast.Attribute) and p.comparators[0].attr == 'by_tag':
        return 'by_tag-membership'
    # inside a % format argument (message)
    q = n
    while q is not None and not isinstance(q, ast.stmt):
        pq = parent(q)
        if isinstance(pq, ast.BinOp) and isinstance(pq.op, ast.Mod) and pq.right is q:
            return 'message'
        if isinstance(pq, ast.Tuple):
            ppq = parent(pq)
            if isinstance(ppq, ast.BinOp) and isinstance(ppq.op, ast.Mod) and ppq.right is pq:
                return 'message'
        q = pq
    return 'other:' + norm(enclosing_stmt(n))[:60]


def is_plus_one(e):
    return isinstance(e, ast.BinOp) and isinstance(e.op, ast.Add) and \
        isinstance(e.right, ast.Constant) and e.right.value == 1


def is_minus_one(e):
    return isinstance(e, ast.BinOp) and isinstance(e.op, ast.Sub) and \
        isinstance(e.right, ast.Constant) and e.right.value == 1


def zero_based_reads(e, loopvars=()):
    """sub-expressions of e that read a 0-based number"""
    out = []
    for x in ast.walk(e):
        if isinstance(x, ast.Attribute) and x.attr in ZERO_BASED_ATTRS and not \
                (isinstance(x.value, ast.Name) and x.value.id in ('np',)):
            out.append(x)
        elif isinstance(x, ast.Attribute) and x.attr == 'n' and isinstance(x.value, ast.Name) and \
                x.value.id in ('self', 'pulse', 'load', 'l'):
            out.append(x)
        elif isinstance(x, ast.Name) and x.id in loopvars:
            out.append(x)
    return out


def format_args(func, flow=None):
    """(written value expr, Mod node) for every %-format application in func"""
    from ..fmt import written_values
    out = []
    for n in walk_no_nested(func.node):
        if isinstance(n, ast.BinOp) and isinstance(n.op, ast.Mod):
            at = flow.node_id_of(n) if flow is not None else None
            for it in written_values(n.right, flow, at):
                out.append((it, n))
    return out


def run(ctx, ck):
    m = ctx.model
    prog = ctx.program
    ck.rule('R-KIND.geo-tag', 'geo_tag only feeds by_tag lookups, None tests and messages')
    ck.rule('R-KIND.registered-index', 'registered index = by_tag[tag].pulses[k].idx, or k itself')
    ck.rule('R-KIND.one-based-out', 'every printed 0-based number carries exactly one + 1')
    ck.rule('R-KIND.one-based-in', 'every number read from the user is decremented exactly once')
    ck.rule('R-TAGS.compute_tags', 'explicit tags validated, automatic tags continue, sorted by tag')
    ck.rule('R-ORDER.positions-after-sort', 'positions are assigned after the objects are sorted by tag')

    # ---------------------------------------------------------------- D1
    n_uses = 0
    for q in ('mininec.Mininec.register_source', 'mininec.Mininec.register_load'):
        f = m.func(q)
        if 'geo_tag' not in f.all_params:
            raise AnalysisError('%s lost its geo_tag parameter' % q)
        def tag_uses(func, pname, depth, seen):
            out = []
            if (func.qual, pname) in seen or depth > 4:
                return out
            seen.add((func.qual, pname))
            for n in walk_no_nested(func.node):
                if isinstance(n, ast.Name) and n.id == pname and isinstance(n.ctx, ast.Load):
                    kind = classify_tag_use(n)
                    if kind.startswith('other'):
                        # passed on to a function of the package: judge the uses there
                        p_ = parent(n)
                        if isinstance(p_, ast.Call) and n in p_.args:
                            gs = prog.callees(p_, prog.env[func.qual], func)
                            if gs:
                                idx = p_.args.index(n)
                                sub = []
                                for g_, bound in gs:
                                    ps = g_.bound_params()
                                    if idx < len(ps):
                                        sub += tag_uses(g_, ps[idx], depth + 1, seen)
                                out += sub
                                continue
                    out.append((func, n, kind))
            return out
        for (fu, n, kind) in tag_uses(f, 'geo_tag', 0, set()):
            n_uses += 1
            ck.ob('R-KIND.geo-tag', '%s|%s|%s' % (q, fu.qual.split('.')[-1], kind),
                  not kind.startswith('other'), fu.loc(n), 'geo_tag used as %s' % kind)
        stores = [n for n in walk_no_nested(f.node) if isinstance(n, ast.Name) and n.id == 'geo_tag'
                  and isinstance(n.ctx, ast.Store)]
        ck.ob('R-KIND.geo-tag', q + '|not-reassigned', not stores, f.loc(), 'geo_tag is never reassigned')
    ck.floor('uses of geo_tag', n_uses, 8)

    # registered / loaded pulse and the range checks, on the symbolic walk (_addressing.py)
    from ._addressing import check_registered_index, check_pulse_bounds
    nreg = check_registered_index(ctx, ck)
    ck.floor('source.register calls', nreg, 1)
    ck.rule('R-BOUNDS.pulse-index', 'user pulse number checked against the length of the list it indexes')
    nb = check_pulse_bounds(ctx, ck, ['mininec.Mininec.register_source', 'mininec.Mininec.register_load'])
    ck.floor('user-indexed pulse lists', nb, 1)

    # ---------------------------------------------------------------- D2 output
    n_out = 0
    from ..rules import writer_functions
    writer_funcs = writer_functions(ctx, ('as_mininec', 'as_cmdline', 'as_basic_input'), exclude=DEBUG_FUNCS)
    for f_ in sorted(writer_funcs, key=lambda x: x.qual):
        loopvars = set()
        for l in loops_in(f_.node):
            if isinstance(l, ast.For) and 'pulse_idx_iter' in norm(l.iter) and isinstance(l.target, ast.Name):
                loopvars.add(l.target.id)
        seen = set()
        from ..fmt import printed_values
        for spec_, arg, modn in printed_values(f_, ctx.flow(f_)):
            if arg is None:
                continue
            zs = zero_based_reads(arg, loopvars)
            if not zs:
                continue
            key = '%s|%s' % (f_.qual, norm(arg))
            if key in seen:
                continue
            seen.add(key)
            # a local temporary holding `x + 1` is fine: resolve it
            a2 = ctx.flow(f_).inline(arg, ctx.flow(f_).node_id_of(modn), depth=2) if isinstance(arg, ast.Name) else arg
            ok = is_plus_one(a2) and len(zero_based_reads(a2.left, loopvars)) >= 1 and \
                not any(is_plus_one(x) or is_minus_one(x) for x in ast.walk(a2.left))
            ck.ob('R-KIND.one-based-out', key, ok, f_.loc(modn),
                  'prints %s' % norm(arg) if ok else
                  'prints the 0-based number %s without exactly one `+ 1`' % norm(arg))
            n_out += 1
    ck.floor('printed 0-based numbers', n_out, 10)

    # ---------------------------------------------------------------- D2 input
    # decided on the symbolic walk of the option-consuming statements of main (mainx): every number
    # the user gives 1-based reaches the model decremented exactly once
    from ..mainx import main_slices, feasible_counts
    from ..symx import simplify
    mainf = m.func('mininec.main')
    if sum(1 for x_ in ast.walk(mainf.node) if isinstance(x_, ast.For) and 'args.' in norm(x_.iter)) < 5:
        mainf = ctx.flat('mininec.main')        # (the options are consumed in step functions of main: judged inlined)
    n_in = 0
    seen_in = {}

    def arg_at(call, k):
        pos = 0
        for a_ in call.args:
            if isinstance(a_, ast.Starred):
                return simplify(ast.Subscript(value=a_.value, slice=ast.Constant(value=k - pos), ctx=ast.Load()))
            if pos == k:
                return a_
            pos += 1
        return None

    def once_decremented(e_):
        """user number - 1, the user number being an int() of a field of the option text"""
        if not is_minus_one(e_):
            return False
        left = e_.left
        if any(is_minus_one(x_) or is_plus_one(x_) for x_ in ast.walk(left)):
            return False
        return any(isinstance(x_, ast.Call) and isinstance(x_.func, ast.Name) and x_.func.id == 'int' for x_ in ast.walk(left)) \
            and ".split(',')" in norm(left)

    def note(key, ok, node, why):
        prev = seen_in.get(key)
        if prev is None or (prev[0] and not ok):
            seen_in[key] = (ok, node, why)
    for st_, dests_, paths_ in main_slices(ctx):
        for p_ in paths_:
            if p_.end == 'return' and isinstance(p_.ret, ast.Constant) and p_.ret.value is not None:
                continue            # a path that rejects the option
            if feasible_counts(p_) == set():
                continue            # its tests on the number of fields contradict each other
            und_ = [t_ for t_, b_ in p_.conds if isinstance(t_, str) and re.search(r'\.\w+\(len\(', t_)]
            if und_:
                # the number of fields is tested by a method of a table object: which paths are feasible is not known
                raise AnalysisError('mininec.main: the test on the number of fields is not understood: %s' % und_[0][:80])
            for ev in p_.events:
                call = ev[2] if ev[0] == 'create' else (ev[1] if ev[0] == 'call' else None)
                if not isinstance(call, ast.Call):
                    continue
                fname = call.func.attr if isinstance(call.func, ast.Attribute) else (
                    call.func.id if isinstance(call.func, ast.Name) else None)
                if fname == 'register_source':
                    a_ = arg_at(call, 1)
                    note('main|register_source|pulse', a_ is not None and once_decremented(a_), st_,
                         'pulse argument %s' % (norm(a_)[:80] if a_ is not None else None))
                elif fname == 'Excitation':
                    for kw in call.keywords:
                        if kw.arg == 'geo_idx':
                            if isinstance(kw.value, ast.Constant) and kw.value.value is None:
                                continue        # no per-object number on this path (the default written out)
                            note('main|Excitation.geo_idx', once_decremented(kw.value), st_, 'geo_idx = %s' % norm(kw.value)[:80])
                elif fname == 'register_load':
                    a_ = arg_at(call, 1)
                    if a_ is None:
                        continue
                    is_none = isinstance(a_, ast.Constant) and a_.value is None
                    # the "all" form passes None; a number is decremented once
                    ok_ = is_none or once_decremented(a_)
                    if not (is_none and not any(isinstance(x_, ast.Starred) for x_ in call.args)):
                        note('main|register_load|pulse', ok_, st_,
                             'pulse number decremented once before register_load (unless "all"): %s' % norm(a_)[:80])
                    l0 = call.args[0] if call.args else None
                    if isinstance(l0, ast.Subscript) and norm(l0.value) == 'loads':
                        note('main|register_load|load-number', once_decremented(l0.slice), st_,
                             'load index %s' % norm(l0.slice)[:80])
    for key, (ok_, node_, why_) in sorted(seen_in.items()):
        ck.ob('R-KIND.one-based-in', key, ok_, mainf.loc(node_), why_)
        n_in += 1
    ck.info('input_conversion_keys', sorted(seen_in))
    ck.floor('input conversions', n_in, 4)

    # ---------------------------------------------------------------- D3
    ct = m.func('mininec.Geo_Container.compute_tags')
    # decided on the symbolic walk of compute_tags (loops entered once, elements bound) and, for the
    # running automatic tag, on the loop body as a state transformer
    pass  # (re is imported at module level)
    from ..symx import SymExec, loop_transformer, copy_replace
    from ..poly import poly_roles, cancel, Poly
    se_ = SymExec(ctx, ct, bind_loops=True, max_paths=2000)
    se_.raises = True           # a validation helper that raises ends compute_tags
    tpaths = se_.run()
    E = lambda t_: re.sub(r'self\.geo\[_k\d+\]', 'E', t_)
    # (a) validation of explicit tags
    rej = set()
    for p_ in tpaths:
        if p_.end != 'raise':
            continue
        atoms = [(E(t_), b_) for t_, b_ in p_.conds if isinstance(b_, bool)]
        if ('E.tag is None', False) not in atoms:
            rej.add('raise without an explicit tag: %s' % (atoms[-1:],))
            continue
        last = atoms[-1]
        if last == ('E.tag <= 0', True) or last == ('E.tag > 0', False) or last == ('E.tag < 1', True):
            rej.add('tag <= 0')
        elif last[1] is True and re.match(r'^E\.tag in \w+(\(\))?$', last[0]):
            rej.add('tag already seen')
        else:
            rej.add('%s is %s' % last)
    from ..rules import self_closure
    hpaths = list(tpaths)
    for h_ in self_closure(ctx, ct):
        if h_.qual != ct.qual:
            hpaths += SymExec(ctx, h_, bind_loops=True, max_paths=2000).run()
    seen_add = any(E(norm(c_)) in ('tags_seen.add(E.tag)',) or re.match(r'^\w+\.add\(E\.tag\)$', E(norm(c_)))
                   for p_ in hpaths if p_.end != 'raise' for c_, st_ in p_.calls)
    ok = rej == {'tag <= 0', 'tag already seen'} and seen_add
    ck.ob('R-TAGS.compute_tags', ct.qual + '|validation', ok, ct.loc(),
          'rejects %s; accepted explicit tags are remembered' % sorted(rej))
    # (b) automatic tags: first one is max(explicit)+1 (1 without explicit tags), then +1 per object
    firsts = set()
    for p_ in tpaths:
        if p_.end == 'raise':
            continue
        for k_, v_, st_ in p_.stores:
            if re.match(r'^self\.geo\[_k\d+\]\.tag$', k_):
                have = [b_ for t_, b_ in p_.conds if isinstance(b_, bool) and re.match(r'^\w+$', t_)]
                # max(X, default=0): the largest explicit tag, 0 without any (max of the empty set
                # with a default is the default)
                guarded = []

                def dflt(x_):
                    if isinstance(x_, ast.Call) and isinstance(x_.func, ast.Name) and x_.func.id == 'max' and \
                       len(x_.args) == 1 and [k_.arg for k_ in x_.keywords] == ['default'] and \
                       isinstance(x_.keywords[0].value, ast.Constant) and x_.keywords[0].value.value == 0:
                        a_ = x_.args[0]
                        if isinstance(a_, ast.Call) and isinstance(a_.func, ast.Name) and a_.func.id == 'set' and not a_.args:
                            return ast.Constant(value=0)
                        if isinstance(a_, ast.Name):
                            guarded.append(a_.id)
                            return ast.Call(func=x_.func, args=[ast.Name(id='tags_seen', ctx=ast.Load())], keywords=[])
                    return None
                v2_ = copy_replace(v_, dflt)
                try:
                    pol = cancel(poly_roles(v2_, {}))
                except ValueError:
                    pol = None
                h_ = have[-1] if have else None
                if guarded:
                    h_ = True       # the empty case is covered by the default
                firsts.add((h_, repr(pol)))
    want_first = {(True, repr(cancel(poly_roles(ast.parse('max(tags_seen) + 1', mode='eval').body, {})))),
                  (False, repr(Poly.const(1))), (None, repr(Poly.const(1)))}
    ok = bool(firsts) and firsts <= want_first and any(h_ is True for h_, _ in firsts)
    why = 'first automatic tag: %s' % sorted(firsts, key=str)
    loops2 = [l for l in ct.body() if isinstance(l, ast.For) and any(
        isinstance(x_, ast.Attribute) and x_.attr == 'tag' and isinstance(x_.ctx, ast.Store) for x_ in ast.walk(l))]
    if ok and len(loops2) == 1:
        pre, carried, bpaths, post = loop_transformer(ctx, ct, loops2[0])
        lv = [n_.id for n_ in ast.walk(loops2[0].target) if isinstance(n_, ast.Name)]
        steps = set()
        for bp in bpaths:
            if bp.end == 'raise':
                continue
            assigned = [v_ for k_, v_, st_ in bp.stores if k_.endswith('.tag')]
            for c_ in carried - set(lv):
                if c_ not in bp.env:
                    continue
                try:
                    d_ = cancel(poly_roles(bp.env[c_], {}) - Poly.var(c_))
                    off = cancel(poly_roles(assigned[-1], {}) - poly_roles(bp.env[c_], {})) if assigned else None
                except ValueError:
                    d_, off = 'not understood', None
                steps.add((bool(assigned), repr(d_), repr(off)))
        # when a tag is assigned the counter advances by one and the tag is the counter (after or before the step)
        ok = bool(steps) and all((a_ and d_ == repr(Poly.const(1)) and off_ in (repr(Poly()), repr(Poly.const(-1))))
                                 or (not a_ and d_ == repr(Poly())) for a_, d_, off_ in steps) and \
            any(a_ for a_, d_, off_ in steps)
        why += '; counter step (assigned?, step, tag - counter): %s' % sorted(steps)
    elif ok:
        ok = False
        why += '; %d loops assign tags' % len(loops2)
    ck.ob('R-TAGS.compute_tags', ct.qual + '|automatic', ok, ct.loc(),
          'automatic tags continue after max(explicit tags): ' + why)
    # (c) every object is entered into by_tag under its (possibly just assigned) tag
    bad = None
    n_ent = 0
    for p_ in tpaths:
        if p_.end == 'raise':
            continue
        loops_ = [t_ for k_, t_ in p_.conds if k_ == 'loop' and 'self.geo' in t_]
        evs = [ev for ev in p_.events if ev[0] == 'store' and ev[1].startswith('self.by_tag[')]
        ent = [l_ for l_ in loops_ if any(ev[4] and ev[4][-1] == l_ for ev in evs)]
        if not evs:
            continue
        n_ent += 1
        for ev in evs:
            elem = E(norm(ev[2]))
            idx = E(ev[1][len('self.by_tag['):-1])
            assigned = [E(norm(v_)) for k_, v_, st_ in p_.stores if re.match(r'^self\.geo\[_k\d+\]\.tag$', k_)]
            if elem != 'E' or not (idx == 'E.tag' or idx in assigned):
                bad = bad or (idx, elem)
        if len(evs) != 1:
            bad = bad or ('%d entries' % len(evs), '')
    skipped = [p_ for p_ in tpaths if p_.end != 'raise' and not any(ev[0] == 'store' and ev[1].startswith('self.by_tag[')
                                                                   for ev in p_.events)
               and any(k_ == 'loop' and 'self.geo' in t_ for k_, t_ in p_.conds)
               and not any(k_ == 'loop-skipped' and 'self.geo' in t_ for k_, t_ in p_.conds)]
    ok = bad is None and n_ent > 0 and not skipped
    ck.ob('R-TAGS.compute_tags', ct.qual + '|by_tag', ok, ct.loc(), 'by_tag[tag] = object for every object' if ok else
          'by_tag entry %s' % (bad,) if bad else 'an object is not entered into by_tag on some path')
    # (d) sorted by tag at the end
    def sort_ok(c_):
        if not (isinstance(c_.func, ast.Attribute) and c_.func.attr == 'sort' and norm(c_.func.value) == 'self.geo'):
            return False
        kw = {k_.arg: k_.value for k_ in c_.keywords}
        k = kw.get('key')
        if isinstance(k, ast.Lambda) and len(k.args.args) == 1:
            return norm(k.body) == '%s.tag' % k.args.args[0].arg
        # a named key function: its closed return value is <parameter>.tag
        kf = None
        if isinstance(k, ast.Attribute) and isinstance(k.value, ast.Name) and k.value.id in ('self', 'cls') and ct.cls is not None:
            kf = m.resolve_method(ct.cls.name, k.attr)
        elif isinstance(k, ast.Name):
            kf = m.funcs.get('%s.%s' % (ct.module.name, k.id))
        if kf is not None:
            from ..symx import closed_returns
            ps_ = [a_.arg for a_ in kf.node.args.args if a_.arg not in ('self', 'cls')]
            rets = {norm(r_) for c_2, r_ in closed_returns(ctx, kf)}
            return len(ps_) == 1 and rets == {'%s.tag' % ps_[0]}
        return k is not None and norm(k) in ("operator.attrgetter('tag')", "attrgetter('tag')")
    ok = True
    n_ok = 0
    for p_ in tpaths:
        if p_.end == 'raise':
            continue
        srt = [i for i, ev in enumerate(p_.events) if ev[0] == 'call' and sort_ok(ev[1])]
        tagw = [i for i, ev in enumerate(p_.events) if ev[0] == 'store' and ev[1].endswith('.tag')]
        ok = ok and len(srt) == 1 and all(i < srt[0] for i in tagw) and 'reverse' not in norm(p_.events[srt[0]][1])
        n_ok += 1
    ck.ob('R-TAGS.compute_tags', ct.qual + '|sorted', ok and n_ok > 0, ct.loc(), 'objects sorted by tag after all tags are assigned')
    # positions after sorting
    # on the symbolic walk of the constructor (helpers, loops over bound methods looked through): on every path
    # segments, ground (= positions) and connectivity are computed once each in this order, and the tags (which
    # sort the objects) before the positions are handed out
    ini = m.func('mininec.Mininec.__init__')
    steps = ('compute_tags', 'compute_segments', 'compute_ground', 'compute_connectivity')
    keep = {g_.qual for g_ in m.all_funcs() if g_.name in steps}
    ipaths = [p_ for p_ in SymExec(ctx, ini, bind_loops=True, effects=True, depth=3, max_paths=2000, no_expand=keep).run()
              if p_.end != 'raise']
    if not ipaths:
        raise AnalysisError('Mininec.__init__: no path returns')
    orders = set()
    for p_ in ipaths:
        seq_ = []
        for ev in p_.events:
            if ev[0] == 'call' and isinstance(ev[1], ast.Call):
                nm_ = ev[1].func.attr if isinstance(ev[1].func, ast.Attribute) else (ev[1].func.id if isinstance(ev[1].func, ast.Name) else None)
                if nm_ in steps:
                    seq_.append(nm_)
        orders.add(tuple(seq_))
    if not any('compute_segments' in o_ for o_ in orders):
        raise AnalysisError('Mininec.__init__: no call of compute_segments on the symbolic paths (%s)' % sorted(orders))
    for a, b in zip(steps[1:], steps[2:]):
        ok = all(o_.count(a) == 1 and o_.count(b) == 1 and o_.index(a) < o_.index(b) for o_ in orders)
        ck.ob('R-ORDER.positions-after-sort', 'Mininec.__init__|%s<%s' % (a, b), ok, ini.loc(),
              '%s before %s, once each, on all %d paths: %s' % (a, b, len(ipaths), sorted(orders)))
    ok = all(o_.count('compute_tags') <= 1 and ('compute_tags' not in o_ or o_.index('compute_tags') < o_.index('compute_ground'))
             for o_ in orders if 'compute_ground' in o_) and any('compute_tags' in o_ for o_ in orders)
    ck.ob('R-ORDER.positions-after-sort', 'Mininec.__init__|tags<ground', ok, ini.loc(),
          'tags are computed (and objects sorted) before positions are assigned')
    cg = m.func('mininec.Geo_Container.compute_ground')
    ls = [l for l in loops_in(cg.node) if isinstance(l, ast.For)]
    ok = len(ls) == 1 and norm(ls[0].iter) == 'enumerate(self.geo)' and \
        any('compute_ground(n, ' in norm(s).replace(norm(ls[0].target.elts[0]), 'n') for s in ls[0].body)
    ck.ob('R-ORDER.positions-after-sort', cg.qual, ok, cg.loc(), 'position n = index in the tag-sorted sequence')
    gg = m.func('mininec.Geobj.compute_ground')
    ok = any(norm(s) == 'self.n = n' for s in gg.body())
    ck.ob('R-ORDER.positions-after-sort', gg.qual, ok, gg.loc(), 'Geobj.compute_ground stores the position')
    from ._endidx import check_end_index
    ck.rule('R-COUNT.end-index', 'predicted index of the end pulses == number of pulses created before them (all end states)')
    ncases = check_end_index(ctx, ck)
    ck.floor('end-state cases', ncases, 30)
    # an attachment to a pulse is never dropped because another object has a pulse in the same row (shared with C08)
    ck.rule('R-EXH.attach', 'add_pulse attaches the pulse it is given, skipped only for this very pulse')
    from .C08 import check_add_pulse
    check_add_pulse(ctx, ck, 'R-EXH.attach')
    ck.undecided += ['junction pulse belongs to the later-tagged object for every topology (runtime)']
