"""R-HALF: half-segment coherence by abstract interpretation of the numeric kernels.

Every pulse has two halves (0 = towards end 1 / "J-1/2..J", 1 = towards end 2 / "J..J+1/2").
Per-pulse arrays of Pulse_Container carry the half on a known axis.  A value is abstracted to
   tags  : set of halves it was selected/evaluated on  (None = not per-half; ('sym', p) = the
           half named by the sign of parameter p)
   fams  : which families of quantities entered it (pot, spot, sign, dirvec, gnd_sgn, seg_len..)
   roles : obs / src (which index of the pulse x pulse matrix)
Products intersect tag sets (empty intersection = incoherent), sums join them.
"""
import ast
from .model import AnalysisError, norm, dotted, parent, walk_no_nested, const_value, is_const
from .cfg import _target_names

FAM_2D = {'seg_len', 'i6', 'radius', 'dir_sgn', 'gnd_sgn', 'ground', 'inv_ground', 'sign'}
FAM_3D = {'dirvec'}
GEOM_CALLS = {'dvecs', 'matrix_dvecs'}          # argument selects the half
OBS_CALLS = {'endseg', 'matrix_endseg'}         # observer-side geometry (not per source half)
POT_CALLS = {'psi': ('pot', 3, 'scale'), 'vector_potential': ('pot', 2, 'ds'),
             'scalar_potential': ('spot', 3, 'ds2'), 'psi_near_field_56': ('spot', 5, 'ds2')}


class AV:
    __slots__ = ('tags', 'fams', 'roles', 'famarr')

    def __init__(self, tags=None, fams=frozenset(), roles=frozenset(), famarr=None):
        self.tags = tags            # None | frozenset of 0/1/('sym',p)
        self.fams = fams
        self.roles = roles
        self.famarr = famarr        # (family name, ndim-kind '2d'|'3d', is_matrix_pair) while unselected

    def __repr__(self):
        return 'AV(tags=%s fams=%s roles=%s%s)' % (
            sorted(map(str, self.tags)) if self.tags is not None else None,
            sorted(self.fams), sorted(self.roles), ' arr=%s' % (self.famarr,) if self.famarr else '')


NEUTRAL = AV()
BOTH = frozenset([0, 1])


def join(a, b):
    if a.tags is None:
        tags = b.tags
    elif b.tags is None:
        tags = a.tags
    else:
        tags = a.tags | b.tags
    fa = a.famarr if a.famarr == b.famarr else (a.famarr or b.famarr)
    return AV(tags, a.fams | b.fams, a.roles | b.roles, fa)


class HalfTagger:
    def __init__(self, ctx, func, bindings=None, depth=2):
        """bindings (for a helper analysed in the context of one call site):
             {param: (AV of the argument, half named by it as a ds/scale argument or None,
                      half named by it as an index or None)}"""
        self.ctx = ctx
        self.func = func
        self.bindings = bindings or {}
        self.depth = depth
        self.sub_cache = {}
        self.flow = ctx.flow(func)
        self.memo = {}
        self.busy = set()
        self.findings = []      # (kind, node, message)
        self.products = []      # (node, tagsL, tagsR, ok)
        self.unknown_selections = []
        self.selections = []    # (node, family, tags)
        self.psi_calls = []     # (node, callee, tag, geom tags)

    # ------------------------------------------------------------------ helpers
    def half_of_arg(self, e, at):
        """tag set selected by a `ds`/`scale` style argument"""
        e2 = self.flow.inline(e, at)
        if is_const(e2):
            try:
                v = const_value(e2)
                if isinstance(v, (int, float)):
                    return frozenset([1 if v > 0 else 0])
            except ValueError:
                pass
        # abs(<constant>) / abs(x) of a known number: a positive scale selects the second half whatever the
        # sign of what went in
        if isinstance(e2, ast.Call) and isinstance(e2.func, (ast.Name, ast.Attribute)) and \
           (dotted(e2.func) or '').split('.')[-1] in ('abs', 'fabs', 'absolute') and len(e2.args) == 1:
            inner = e2.args[0]
            try:
                if is_const(inner) and isinstance(const_value(inner), (int, float)) and const_value(inner) != 0:
                    return frozenset([1])
            except ValueError:
                pass
        if isinstance(e2, ast.Name) and e2.id in self.func.all_params:
            b = self.bindings.get(e2.id)
            if b is not None and b[1] is not None:
                return b[1]
            return frozenset([('sym', e2.id)])
        return BOTH

    def selector_tag(self, e, at):
        """tag named by an index expression: literal 0/1, or int(<param> > 0) (possibly via a local)"""
        e2 = self.flow.inline(e, at)
        if isinstance(e2, ast.Constant) and e2.value in (0, 1) and not isinstance(e2.value, bool):
            return frozenset([e2.value])
        if isinstance(e2, ast.Name) and e2.id in self.func.all_params:
            b = self.bindings.get(e2.id)
            if b is not None and b[2] is not None:
                return b[2]
        if isinstance(e2, ast.Call) and isinstance(e2.func, ast.Name) and e2.func.id == 'int' \
           and len(e2.args) == 1 and isinstance(e2.args[0], ast.Compare):
            c = e2.args[0]
            if len(c.ops) == 1 and isinstance(c.ops[0], ast.Gt) and isinstance(c.left, ast.Name) \
               and c.left.id in self.func.all_params and is_const(c.comparators[0]) \
               and const_value(c.comparators[0]) == 0:
                return frozenset([('sym', c.left.id)])
        return None

    # ------------------------------------------------------------------ evaluation
    def eval_name(self, name, at):
        key = (name, at)
        if key in self.memo:
            return self.memo[key]
        if key in self.busy:
            return NEUTRAL
        self.busy.add(key)
        out = NEUTRAL
        first = True
        for d in self.flow.def_exprs(name, at):
            kind = d[0]
            if kind == 'param' and name in self.bindings:
                v = self.bindings[name][0]
            elif kind in ('param', 'undefined', 'other'):
                v = NEUTRAL
            elif kind in ('assign', 'with'):
                v = self.eval(d[1], d[2])
            elif kind == 'weak':
                v = self.eval(d[1], d[2])
                v = AV(v.tags, v.fams, v.roles, None)
            elif kind == 'aug':
                st = d[1]
                v = join(self.eval(st.value, d[2]), self.eval_name(name, d[2]))
            elif kind == 'unpack':
                v = self.eval(d[1], d[2])
                idx = d[3] if len(d) > 3 else None
                if v.famarr and v.famarr[2] and idx in (0, 1):
                    v = AV(v.tags, v.fams, frozenset(['obs' if idx == 0 else 'src']),
                           (v.famarr[0], v.famarr[1], False))
            elif kind in ('for', 'for-unpack'):
                v = NEUTRAL
            else:
                v = NEUTRAL
            out = v if first else join(out, v)
            first = False
        self.busy.discard(key)
        self.memo[key] = out
        return out

    def eval(self, e, at):
        if isinstance(e, ast.Name):
            if e.id in self.flow.rd.names:
                return self.eval_name(e.id, at)
            return NEUTRAL
        if isinstance(e, ast.Constant):
            return NEUTRAL
        if isinstance(e, ast.Attribute):
            d = dotted(e)
            if d and d.startswith('self.pulses.') and d.endswith('.T') and d.count('.') == 3:
                base = self.eval(e.value, at)
                if base.famarr:
                    return AV(base.tags, base.fams, base.roles, base.famarr + ('T',))
                return base
            if d and d.startswith('self.pulses.'):
                rest = d[len('self.pulses.'):]
                if rest.startswith('matrix_'):
                    fam = rest[len('matrix_'):]
                    if fam in FAM_2D or fam in FAM_3D:
                        return AV(None, frozenset([fam]), frozenset(),
                                  (fam, '2d' if fam in FAM_2D else '3d', True))
                    return NEUTRAL
                if rest in FAM_2D or rest in FAM_3D:
                    return AV(None, frozenset([rest]), frozenset(),
                              (rest, '2d' if rest in FAM_2D else '3d', False))
                return NEUTRAL
            base = self.eval(e.value, at)
            if e.attr == 'T' and base.famarr:
                return AV(base.tags, base.fams, base.roles, base.famarr + ('T',))
            return AV(base.tags, base.fams, base.roles, base.famarr if e.attr in ('real', 'imag') else None)
        if isinstance(e, ast.Subscript):
            base = self.eval(e.value, at)
            if base.famarr:
                return self.select(e, base, at)
            return AV(base.tags, base.fams, base.roles, None)
        if isinstance(e, ast.Call):
            return self.eval_call(e, at)
        if isinstance(e, ast.BinOp):
            a = self.eval(e.left, at)
            b = self.eval(e.right, at)
            if isinstance(e.op, (ast.Mult, ast.Div, ast.MatMult)):
                return self.product(e, a, b)
            return join(a, b)
        if isinstance(e, ast.UnaryOp):
            return self.eval(e.operand, at)
        if isinstance(e, (ast.Tuple, ast.List)):
            out = NEUTRAL
            for x in e.elts:
                out = join(out, self.eval(x, at))
            return out
        if isinstance(e, ast.IfExp):
            return join(self.eval(e.body, at), self.eval(e.orelse, at))
        if isinstance(e, ast.Starred):
            return self.eval(e.value, at)
        return NEUTRAL

    def product(self, node, a, b):
        fams = a.fams | b.fams
        roles = a.roles | b.roles
        if a.tags is None or b.tags is None:
            tags = a.tags if b.tags is None else b.tags
            return AV(tags, fams, roles, None)
        inter = a.tags & b.tags
        ok = bool(inter)
        self.products.append((node, a.tags, b.tags, ok, fams))
        if not ok:
            self.findings.append(('incoherent-product', node,
                                  'product combines half %s with half %s: %s'
                                  % (fmt_tags(a.tags), fmt_tags(b.tags), norm(node)[:100])))
            return AV(a.tags | b.tags, fams, roles, None)
        return AV(inter, fams, roles, None)

    def select(self, e, base, at):
        fam, kind, pair = base.famarr[0], base.famarr[1], base.famarr[2]
        transposed = len(base.famarr) > 3
        idx = e.slice
        elts = list(idx.elts) if isinstance(idx, ast.Tuple) else [idx]
        # matrix pair: first select observer / source
        if pair:
            if len(elts) == 1 and isinstance(elts[0], ast.Constant) and elts[0].value in (0, 1):
                role = 'obs' if elts[0].value == 0 else 'src'
                if kind == 'geom':
                    return AV(base.tags, base.fams, frozenset([role]), None)
                return AV(None, base.fams, frozenset([role]), (fam, kind, False))
            self.unknown_selections.append(e)
            return AV(BOTH, base.fams, frozenset(['obs', 'src']), None)

        def is_full(x):
            return (isinstance(x, ast.Slice) and x.lower is None and x.upper is None and x.step is None) \
                or (isinstance(x, ast.Constant) and x.value is Ellipsis)

        def is_newaxis(x):
            return (isinstance(x, ast.Constant) and x.value is None) or \
                (isinstance(x, ast.Attribute) and x.attr == 'newaxis')

        core = [x for x in elts if not is_newaxis(x)]
        sel = [(i, x) for i, x in enumerate(core) if not is_full(x)]
        if transposed:
            # X.T[h] on a 2-D per-half array selects the half; on 3-D it selects a coordinate
            if kind == '2d' and len(core) == 1:
                t = self.selector_tag(core[0], at)
                if t is not None:
                    self.selections.append((e, fam, t))
                    return AV(t, base.fams, base.roles, None)
            self.unknown_selections.append(e)
            return AV(BOTH, base.fams, base.roles, None)
        if not sel:
            return base
        if len(sel) == 1:
            i, x = sel[0]
            t = self.selector_tag(x, at)
            last = (i == len(core) - 1)
            second_last = (i == len(core) - 2) and is_full(core[-1])
            has_ellipsis_or_lead = any(is_full(y) for y in core[:i])
            if t is not None:
                if kind == '2d' and last and (has_ellipsis_or_lead or len(core) >= 2):
                    self.selections.append((e, fam, t))
                    return AV(t, base.fams, base.roles, None)
                if kind == '3d' and second_last:
                    self.selections.append((e, fam, t))
                    return AV(t, base.fams, base.roles, None)
                if kind == '3d' and last and has_ellipsis_or_lead:
                    # coordinate component of a vector family: still per-half unselected
                    return AV(BOTH, base.fams, base.roles, None)
            # a mask / index array in first position: row selection, half axis untouched
            if i == 0 and t is None and not isinstance(x, ast.Constant):
                return AV(base.tags, base.fams, base.roles, base.famarr)
        self.unknown_selections.append(e)
        return AV(BOTH, base.fams, base.roles, None)

    def eval_call(self, e, at):
        fn = e.func
        if isinstance(fn, ast.Name) and fn.id in self.flow.rd.names:
            # a bound method kept in a local (psi56 = self.psi_near_field_56)
            sd = self.flow.single_def(fn.id, at)
            if sd is not None and isinstance(sd[0], ast.Attribute) and (dotted(sd[0]) or '').startswith('self.'):
                fn = sd[0]
        d = dotted(fn) or ''
        name = fn.attr if isinstance(fn, ast.Attribute) else (fn.id if isinstance(fn, ast.Name) else '')
        if d.startswith('self.pulses.') and name in GEOM_CALLS and e.args:
            t = self.half_of_arg(e.args[0], at)
            pair = name.startswith('matrix_')
            av = AV(t, frozenset(['geom']), frozenset(), None)
            if pair:
                av.famarr = ('geom', 'geom', True)
            return av
        if d.startswith('self.pulses.') and name in OBS_CALLS:
            return AV(None, frozenset(['obsgeom']), frozenset(['obs']), None)
        if d.startswith('self.') and name in POT_CALLS:
            fam, pos, kw = POT_CALLS[name]
            arg = None
            if len(e.args) > pos:
                arg = e.args[pos]
            for k in e.keywords:
                if k.arg == kw:
                    arg = k.value
            t = self.half_of_arg(arg, at) if arg is not None else BOTH
            geom = NEUTRAL
            if name == 'psi':
                for a in e.args[:2]:
                    geom = join(geom, self.eval(a, at))
                ok = geom.tags is None or bool(geom.tags & t)
                self.psi_calls.append((e, name, t, geom.tags, ok))
                if not ok:
                    self.findings.append(('psi-half-mismatch', e,
                                          'psi evaluated with scale of half %s on the geometry of '
                                          'half %s' % (fmt_tags(t), fmt_tags(geom.tags))))
            else:
                self.psi_calls.append((e, name, t, None, True))
            return AV(t, frozenset([fam]), frozenset(['src']), None)
        if d == 'self.nf_helper':
            return AV(BOTH, frozenset(['pot', 'sign', 'dirvec', 'gnd_sgn']), frozenset(['src']), None)
        if d.startswith('self.') and d.count('.') == 1 and self.func.cls is not None and self.depth > 0:
            sub = self.eval_helper(e, name, at)
            if sub is not None:
                return sub
        # constructors of neutral arrays
        if d in ('np.zeros', 'np.ones', 'np.eye', 'np.identity', 'np.arange', 'np.diag_indices',
                 'np.triu_indices', 'len', 'range', 'np.where', 'np.unique'):
            return NEUTRAL
        if d in ('np.logical_and', 'np.logical_or', 'np.logical_not', 'np.logical_or.reduce'):
            return NEUTRAL
        out = NEUTRAL
        args = list(e.args) + [k.value for k in e.keywords if k.arg not in ('axis', 'dtype', 'indexing')]
        for a in args:
            v = self.eval(a.value if isinstance(a, ast.Starred) else a, at)
            out = join(out, AV(v.tags, v.fams, v.roles, None))
        if isinstance(fn, ast.Attribute) and not d.startswith(('np.', 'self.')):
            v = self.eval(fn.value, at)
            out = join(out, AV(v.tags, v.fams, v.roles, None))
        if d == 'np.sum' or name == 'sum':
            # summation over the half axis merges both halves only if the array was unselected
            pass
        return out

    def eval_helper(self, e, name, at):
        """a call of another method of the class: analyse the callee in the context of this call
        (argument values and the halves its constant / symbolic arguments name) and return the
        abstraction of what it returns; its products / selections / potential calls count as ours"""
        g = self.ctx.model.resolve_method(self.func.cls.name, name)
        if g is None or g.qual == self.func.qual or getattr(g, 'is_property', False):
            return None
        if any(isinstance(a, ast.Starred) for a in e.args) or any(k.arg is None for k in e.keywords):
            return None
        params = g.bound_params()
        bind = {}
        pairs = list(zip(params, e.args)) + [(k.arg, k.value) for k in e.keywords if k.arg in params]
        keyparts = []
        for p_, a in pairs:
            av = self.eval(a, at)
            h = self.half_of_arg(a, at)
            a2 = self.flow.inline(a, at)
            if h == BOTH and not (isinstance(a2, ast.Name) and a2.id in self.func.all_params):
                h = None
            elif not (is_const(a2) or (isinstance(a2, ast.Name) and a2.id in self.func.all_params)):
                h = None
            sel = self.selector_tag(a, at)
            bind[p_] = (AV(av.tags, av.fams, av.roles, av.famarr), h, sel)
            keyparts.append((p_, repr(av), fmt_tags(h), fmt_tags(sel)))
        key = (g.qual, tuple(keyparts))
        if key in self.sub_cache:
            return self.sub_cache[key]
        stack = getattr(self, '_stack', ())
        if g.qual in stack:
            return None
        sub = HalfTagger(self.ctx, g, bindings=bind, depth=self.depth - 1)
        sub._stack = stack + (self.func.qual,)
        sub.run()
        out = None
        for n in sub.flow.cfg.nodes:
            st = n.stmt
            if n.kind == 'stmt' and isinstance(st, ast.Return) and st.value is not None and n.id in sub.flow.cfg.reach:
                v = sub.eval(st.value, n.id)
                v = AV(v.tags, v.fams, v.roles, v.famarr)
                out = v if out is None else join(out, v)
        if out is None:
            out = NEUTRAL
        self.findings += sub.findings
        self.products += sub.products
        self.psi_calls += sub.psi_calls
        self.selections += sub.selections
        self.unknown_selections += sub.unknown_selections
        self.sub_cache[key] = out
        return out

    # ------------------------------------------------------------------ driver
    def run(self):
        """evaluate every statement's expressions (records products/findings as a side effect)"""
        for n in self.flow.cfg.nodes:
            st = n.stmt
            if st is None or n.id not in self.flow.cfg.reach:
                continue
            if n.kind == 'stmt':
                if isinstance(st, ast.Assign):
                    self.eval(st.value, n.id)
                elif isinstance(st, ast.AugAssign):
                    self.eval(st.value, n.id)
                elif isinstance(st, ast.Return) and st.value is not None:
                    self.eval(st.value, n.id)
                elif isinstance(st, ast.Expr):
                    self.eval(st.value, n.id)
        # de-duplicate (memoised evaluation may record the same node several times)
        seen = set()
        fs = []
        for k, node, msg in self.findings:
            if (k, id(node), msg) not in seen:
                seen.add((k, id(node), msg))
                fs.append((k, node, msg))
        self.findings = fs
        seen = set()
        ps = []
        for node, a, b, ok, fams in self.products:
            if (id(node), a, b) not in seen:
                seen.add((id(node), a, b))
                ps.append((node, a, b, ok, fams))
        self.products = ps
        seen = set()
        pc = []
        for rec in self.psi_calls:
            if (id(rec[0]), rec[2]) not in seen:
                seen.add((id(rec[0]), rec[2]))
                pc.append(rec)
        self.psi_calls = pc
        return self

    def value_at_stmt(self, st):
        nid = self.flow.node_id_of(st)
        v = st.value if hasattr(st, 'value') else st
        return self.eval(v, nid)


def fmt_tags(t):
    if t is None:
        return '-'
    return '{' + ','.join(str(x[1]) + '?' if isinstance(x, tuple) else str(x) for x in sorted(t, key=str)) + '}'


def vector_potential_sums(tagger):
    """find sums  P0 * ... + P1 * ...  whose terms each contain a potential and a direction
    vector; returns [(sum node, [(term node, AV)])]"""
    out = []
    from .dataflow import sum_terms
    fl = tagger.flow
    for n in fl.cfg.nodes:
        st = n.stmt
        if st is None or n.kind != 'stmt' or n.id not in fl.cfg.reach:
            continue
        v = getattr(st, 'value', None)
        if v is None:
            continue
        for sub in ast.walk(v):
            if isinstance(sub, ast.BinOp) and isinstance(sub.op, ast.Add):
                p = parent(sub)
                if isinstance(p, ast.BinOp) and isinstance(p.op, (ast.Add, ast.Sub)):
                    continue    # only maximal sums
                terms = sum_terms(sub)
                # a term may be a local temporary holding the product: look through it
                orig = [t for s_, t in terms]
                terms = [(s_, fl.inline(t, n.id, depth=1) if isinstance(t, ast.Name) else t) for s_, t in terms]
                if not all(isinstance(t, ast.BinOp) and isinstance(t.op, ast.Mult) for s_, t in terms):
                    continue
                # a temporary is evaluated as the name (at its own definition the factors it was built from
                # had the values of that time - they may have been reassigned for the other half since)
                avs = [(t, tagger.eval(o_ if isinstance(o_, ast.Name) else t, n.id)) for (s_, t), o_ in zip(terms, orig)]
                if len(avs) == 2 and all({'pot', 'dirvec'} <= a.fams for t, a in avs):
                    out.append((sub, avs, st))
    return out


def seglen_divisions(tagger):
    """divisions by a segment-length selection of one half: [(node, half tags, [term AVs])]"""
    from .dataflow import sum_terms
    fl = tagger.flow
    out = []
    seen = set()
    for n in fl.cfg.nodes:
        st = n.stmt
        if st is None or n.kind != 'stmt' or n.id not in fl.cfg.reach:
            continue
        v = getattr(st, 'value', None)
        if v is None:
            continue
        for sub in ast.walk(v):
            if isinstance(sub, ast.BinOp) and isinstance(sub.op, ast.Div) and id(sub) not in seen:
                den = tagger.eval(sub.right, n.id)
                if den.fams == frozenset(['seg_len']) and den.tags is not None and len(den.tags) == 1:
                    seen.add(id(sub))
                    num = sub.left
                    # look through np.reshape(x, ...) and local temporaries
                    num = fl.inline(num, n.id, depth=2)
                    while isinstance(num, ast.Call) and (dotted(num.func) or '') in ('np.reshape',) and num.args:
                        num = num.args[0]
                    terms = [(t, tagger.eval(t, n.id)) for s, t in sum_terms(num)]
                    out.append((sub, den.tags, terms, st))
    return out
