"""C01  Power balance: source power = load dissipation + radiated far-field power.

Only structural necessary conditions are decided:
 D1 R-DEP  the power that normalises far and near field is the sum over ALL sources of the source
           power, computed after the currents are solved.
 D2 R-DEP  both field computations normalise with that value: the dBi array depends on self.power
           (and not on the requested power / distance), the near-field scale is sqrt(pwr/power).
 D3 R-DEP  Excitation.power = 1/2 Re(V conj(I)) with I the solved current on the feed pulse.
 D4 R-EXH  loads enter the system on the diagonal with the weight of a series element (= C08-D1/D2).
Not decided: the 1.5 % balance itself, the Fresnel branch, dissipation in loads (numeric).
"""
import ast
from ..model import AnalysisError, walk_no_nested, norm, dotted
from ..rules import assigns_to_attr, calls_in

COMPUTE = 'mininec.Mininec.compute'


def run(ctx, ck):
    m = ctx.model
    ck.rule('R-DEP.total-power', 'self.power = sum of the power of all sources, after the solve')
    ck.rule('R-DEP.dbi-normalised', 'dBi array normalised by self.power, independent of requested power/distance')
    ck.rule('R-SIB.field-scaling', 'near field scaled by sqrt(pwr / self.power)')
    ck.rule('R-DEP.power-formula', 'Excitation.power = 1/2 Re(V conj(I))')
    ck.rule('R-DEP.current-lookup', 'Excitation.current = parent.current[idx]')
    ck.rule('R-SIB.weight', 'load weight == source weight (series element)')

    f = m.func(COMPUTE)
    fl = ctx.flow(f)
    asg = assigns_to_attr(f, 'self.power')
    if len(asg) != 1:
        raise AnalysisError('Mininec.compute assigns self.power %d times' % len(asg))
    a = asg[0]
    v = fl.inline(a.value, fl.node_id_of(a))
    ok, why = False, 'self.power = %s' % norm(v)
    agg = None
    if isinstance(v, ast.Call) and (dotted(v.func) or '') in ('sum', 'np.sum', 'math.fsum', 'fsum') and v.args:
        agg = v.args[0]
    if isinstance(agg, (ast.GeneratorExp, ast.ListComp)):
        g = agg.generators
        ok = len(g) == 1 and norm(g[0].iter) == 'self.sources' and not g[0].ifs and \
            isinstance(agg.elt, ast.Attribute) and agg.elt.attr == 'power' and \
            isinstance(g[0].target, ast.Name) and norm(agg.elt.value) == g[0].target.id
        if not ok:
            why = 'aggregation is %s: not the power of every source' % norm(agg)
    elif isinstance(a.value, ast.Name):
        # accumulation loop:  p = 0 ; for s in self.sources: p += s.power
        nm = a.value.id
        ds = fl.def_exprs(nm, fl.node_id_of(a))
        augs = [d for d in ds if d[0] == 'aug']
        inits = [d for d in ds if d[0] == 'assign']
        if len(augs) == 1 and len(inits) == 1 and norm(inits[0][1]) in ('0', '0.0'):
            st = augs[0][1]
            from ..model import parent
            lp = parent(st)
            ok = isinstance(lp, ast.For) and norm(lp.iter) == 'self.sources' and isinstance(st.op, ast.Add) and \
                isinstance(st.value, ast.Attribute) and st.value.attr == 'power' and \
                norm(st.value.value) == norm(lp.target)
    else:
        why = 'self.power = %s is not an aggregation over self.sources' % norm(v)
    ck.ob('R-DEP.total-power', COMPUTE + '|sum-over-all-sources', ok, f.loc(a), why)
    cc = calls_in(f.node, attr='compute_currents')
    ok = len(cc) == 1 and fl.cfg.must_pass(fl.node_id_of(a), {fl.node_id_of(cc[0])})
    ck.ob('R-DEP.total-power', COMPUTE + '|after-solve', ok, f.loc(a), 'total power is evaluated after compute_currents()')

    from .C10 import check_dbi_normalisation
    check_dbi_normalisation(ctx, ck)
    from .C04 import check_nearfield_power_scaling
    check_nearfield_power_scaling(ctx, ck)
    from .C07 import check_power_formula, single_return
    check_power_formula(ctx, ck)
    g = m.func('mininec.Excitation.current')
    r = single_return(g)
    ok = r is not None and norm(ctx.flow(g).inline(r.value)) == 'self.parent.current[self.idx]'
    ck.ob('R-DEP.current-lookup', g.qual, ok, g.loc(), 'source current is the solved current on the feed pulse')
    from .C08 import check_weights
    check_weights(ctx, ck)
    ck.undecided += ['the 1.5 % balance between source, dissipated and radiated power (numeric integration)',
                     'Fresnel reflection branch over real ground', 'dissipation in loads']
