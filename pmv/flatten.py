"""Helper inlining: a function with its private helpers written back in place.

Rules that reason about one function with the CFG / reaching definitions (dependencies, products,
dominance, loops) see the same thing whether the author kept a computation in the function or moved
it into a private helper method.  `flatten(ctx, func)` returns a synthetic Func whose body is the
original body with every *statement-level evaluable* call of an inlinable helper replaced by the
helper's body:
    x = self._h(a, b)          p__1 = a ; q__1 = b ; <body of _h with locals renamed *__1> ; x = __r1
Inlinable: methods of the same class reached as self._name(...) / cls._name(...) / Class._name(...),
module-level functions _name(...) of the same module; name starts with an underscore; not a
generator, not recursive, no return inside a loop of the helper.  A call is replaced only where
moving it in front of its statement cannot change what is evaluated: not under a conditional
expression, a short-circuit operand after the first, a lambda, a comprehension or a loop test.
Nothing is executed; the result is an AST used for analysis only.
"""
import ast
import copy
from .model import Func, norm, dotted


def _strip_parents(n):
    for x in ast.walk(n):
        if hasattr(x, '_parent'):
            try:
                del x._parent
            except AttributeError:
                pass


def _clone(node):
    """deep copy without following the model's _parent back links"""
    def cp(n):
        if not isinstance(n, ast.AST):
            return n
        new = n.__class__()
        for fld, val in ast.iter_fields(n):
            if isinstance(val, list):
                setattr(new, fld, [cp(x) for x in val])
            else:
                setattr(new, fld, cp(val))
        for a in ('lineno', 'col_offset', 'end_lineno', 'end_col_offset'):
            if hasattr(n, a):
                setattr(new, a, getattr(n, a))
        return new
    return cp(node)


def _set_parents(root):
    root._parent = None
    for node in ast.walk(root):
        for ch in ast.iter_child_nodes(node):
            ch._parent = node


class Flattener:
    def __init__(self, ctx, func, depth=3):
        self.ctx = ctx
        self.m = ctx.model
        self.func = func
        self.depth = depth
        self.counter = [0]
        self.inlined = []
        self.root = None
        self._nested = {}
        # helpers that return from inside their loops are inlined too when a module-level function (main) is
        # flattened: option parsing split into `_parse_x(args)` functions returns its exit code from the loops
        self.loop_returns = func.cls is None

    # ------------------------------------------------------------------ which calls
    def callee(self, call, stack):
        fn = call.func
        g = None
        recv = None
        if isinstance(fn, ast.Attribute) and isinstance(fn.value, ast.Name) and self.func.cls is not None:
            if fn.value.id in ('self', 'cls'):
                g = self.m.resolve_method(self.func.cls.name, fn.attr)
            elif fn.value.id in self.m.classes:
                g = self.m.resolve_method(fn.value.id, fn.attr)
                if g is not None and not g.is_static and 'classmethod' not in g.decorators:
                    g = None
        elif isinstance(fn, ast.Name):
            g = self.m.funcs.get('%s.%s' % (self.func.module.name, fn.id))
            if g is None and self.root is not None:
                # a function defined inside the function being flattened (it sees the enclosing locals; inlining
                # renames only its own locals): treated like a private helper
                defs = [d for d in ast.walk(self.root) if isinstance(d, ast.FunctionDef) and d.name == fn.id and d is not self.root]
                if len(defs) == 1 and not any(isinstance(x, (ast.Nonlocal, ast.Global)) for x in ast.walk(defs[0])):
                    g = self._nested.get(id(defs[0]))
                    if g is None:
                        g = Func(self.func.module, None, defs[0], 'function')
                        g.nested = True
                        self._nested[id(defs[0])] = g
        if g is None or not (g.name.startswith('_') or getattr(g, 'nested', False)) or g.name.startswith('__'):
            return None
        if g.kind not in ('method', 'function') or g.qual in stack or g.qual == self.func.qual:
            return None
        if any(isinstance(a, ast.Starred) for a in call.args) or any(k.arg is None for k in call.keywords):
            return None
        if g.node.args.vararg or g.node.args.kwarg:
            return None
        for n in ast.walk(g.node):
            if isinstance(n, (ast.Yield, ast.YieldFrom, ast.Global, ast.Nonlocal)):
                return None
            if isinstance(n, (ast.FunctionDef, ast.AsyncFunctionDef, ast.ClassDef)) and n is not g.node:
                return None
        # no return inside a loop of the helper
        def ret_in_loop(n, inloop):
            if isinstance(n, ast.Return) and inloop:
                return True
            for c in ast.iter_child_nodes(n):
                if isinstance(c, (ast.FunctionDef, ast.Lambda)):
                    continue
                if ret_in_loop(c, inloop or isinstance(n, (ast.For, ast.While))):
                    return True
            return False
        if ret_in_loop(g.node, False) and not self.loop_returns:
            return None
        params = g.bound_params() if g.cls is not None else list(g.params)
        given = len(call.args) + len(call.keywords)
        if len(call.args) > len(params):
            return None
        return g

    def picked_methods(self, name, root):
        """the private methods a local may be bound to: every assignment `name = self._m` in the function
        (None when the name is bound to anything else as well)"""
        out = []
        for n in ast.walk(root):
            if isinstance(n, ast.Name) and n.id == name and isinstance(n.ctx, ast.Store):
                p = getattr(n, '_fparent', None)
                if not (isinstance(p, ast.Assign) and len(p.targets) == 1 and p.targets[0] is n):
                    return None
                v = p.value
                vals = [v.body, v.orelse] if isinstance(v, ast.IfExp) else [v]
                for x in vals:
                    if isinstance(x, ast.Attribute) and isinstance(x.value, ast.Name) and x.value.id in ('self', 'cls') \
                       and self.func.cls is not None:
                        g = self.m.resolve_method(self.func.cls.name, x.attr)
                        if g is None or not g.name.startswith('_') or g.name.startswith('__') or g.kind != 'method':
                            return None
                        out.append((x, g))
                    else:
                        return None
        return out or None

    def hoistable_calls(self, st, stack):
        """inlinable calls in the expressions evaluated by the simple statement st itself, innermost first"""
        out = []

        def visit(n, ok):
            if isinstance(n, (ast.Lambda, ast.GeneratorExp, ast.ListComp, ast.SetComp, ast.DictComp)):
                return
            if isinstance(n, ast.IfExp):
                visit(n.test, ok)
                visit(n.body, False)
                visit(n.orelse, False)
                return
            if isinstance(n, ast.BoolOp):
                for i, v in enumerate(n.values):
                    visit(v, ok and i == 0)
                return
            for c in ast.iter_child_nodes(n):
                visit(c, ok)
            if ok and isinstance(n, ast.Call):
                g = self.callee(n, stack)
                if g is not None:
                    out.append((n, g))
                elif isinstance(n.func, ast.Name) and self.root is not None:
                    pm = self.picked_methods(n.func.id, self.root)
                    if pm:
                        out.append((n, pm))
        if isinstance(st, (ast.Assign, ast.AugAssign, ast.AnnAssign, ast.Expr, ast.Return)):
            v = st.value
            if v is not None:
                visit(v, True)
            if isinstance(st, ast.Assign):
                for t in st.targets:
                    if isinstance(t, (ast.Subscript, ast.Attribute)):
                        visit(t, True)
        elif isinstance(st, ast.For):
            visit(st.iter, True)
        elif isinstance(st, ast.If):
            visit(st.test, True)
        elif isinstance(st, ast.With):
            for it in st.items:
                visit(it.context_expr, True)
        return out

    # ------------------------------------------------------------------ one helper body
    def expand(self, call, g, stack):
        """(statements to run before, Name holding the result)"""
        self.counter[0] += 1
        k = self.counter[0]
        sfx = '__%d' % k
        body = [_clone(s) for s in g.body()]
        params = list(g.params)
        all_params = [a.arg for a in g.node.args.posonlyargs + g.node.args.args + g.node.args.kwonlyargs]
        locals_ = set(all_params)
        for s in body:
            for n in ast.walk(s):
                if isinstance(n, ast.Name) and isinstance(n.ctx, (ast.Store, ast.Del)):
                    locals_.add(n.id)
        recv = call.func.value if isinstance(call.func, ast.Attribute) else None
        bound = g.cls is not None and not g.is_static
        keep_self = bound and isinstance(recv, ast.Name) and recv.id in ('self', 'cls') and params and \
            params[0] in ('self', 'cls') and recv.id == params[0]
        rename = {nm: nm + sfx for nm in locals_}
        if keep_self:
            del rename[params[0]]
        for s in body:
            for n in ast.walk(s):
                if isinstance(n, ast.Name) and n.id in rename:
                    n.id = rename[n.id]
                elif isinstance(n, ast.Lambda):
                    # (a lambda parameter that shares its name with a local of the helper is renamed with it)
                    for a_ in n.args.posonlyargs + n.args.args + n.args.kwonlyargs:
                        if a_.arg in rename:
                            a_.arg = rename[a_.arg]
        pre = []

        def assign(name, value, like):
            a = ast.Assign(targets=[ast.Name(id=name, ctx=ast.Store())], value=value)
            ast.copy_location(a, like)
            for x in ast.walk(a):
                if not hasattr(x, 'lineno'):
                    ast.copy_location(x, like)
            return a
        callparams = params[1:] if bound else params
        if bound and not keep_self and params:
            pre.append(assign(rename.get(params[0], params[0]), _clone(recv) if recv is not None else ast.Name(id='self', ctx=ast.Load()), call))
        got = {}
        for p_, a in zip(callparams, call.args):
            got[p_] = a
        for kw in call.keywords:
            got[kw.arg] = kw.value
        defaults = g.defaults()
        # a parameter the helper never rebinds, handed a plain name / attribute chain / constant whose
        # attributes the helper does not store to, is replaced by that expression itself (the flattened
        # text then reads like the hand-inlined code: `if k not in self.cache: self.cache[k] = ...`)
        stored_names = {n.id for s in body for n in ast.walk(s) if isinstance(n, ast.Name) and isinstance(n.ctx, (ast.Store, ast.Del))}
        stored_attrs = {n.attr for s in body for n in ast.walk(s) if isinstance(n, ast.Attribute) and isinstance(n.ctx, (ast.Store, ast.Del))}

        def plain(a):
            if isinstance(a, ast.Constant):
                return True
            chain = []
            while isinstance(a, ast.Attribute):
                chain.append(a.attr)
                a = a.value
            return isinstance(a, ast.Name) and not (set(chain) & stored_attrs)
        direct = {}
        for p_ in callparams + [a.arg for a in g.node.args.kwonlyargs]:
            if p_ in got and rename[p_] not in stored_names and plain(got[p_]):
                direct[rename[p_]] = got[p_]
                continue
            if p_ in got:
                pre.append(assign(rename[p_], _clone(got[p_]), call))
            elif p_ in defaults:
                pre.append(assign(rename[p_], _clone(defaults[p_]), call))
            else:
                return None
        if direct:
            def put(node):
                for fld, val in ast.iter_fields(node):
                    if isinstance(val, list):
                        for i_, x in enumerate(val):
                            if isinstance(x, ast.Name) and x.id in direct and isinstance(x.ctx, ast.Load):
                                val[i_] = ast.copy_location(_clone(direct[x.id]), x)
                                for y in ast.walk(val[i_]):
                                    ast.copy_location(y, x)
                            elif isinstance(x, ast.AST):
                                put(x)
                    elif isinstance(val, ast.Name) and val.id in direct and isinstance(val.ctx, ast.Load):
                        new_ = _clone(direct[val.id])
                        for y in ast.walk(new_):
                            ast.copy_location(y, val)
                        setattr(node, fld, new_)
                    elif isinstance(val, ast.AST):
                        put(val)
            for s in body:
                put(s)
        if self.loop_returns:
            # loops over tables of rows are written out before the returns are rewritten (a `return` inside the
            # loop is still a return in every copy; afterwards it would be a break of a loop that no longer exists)
            body = self._unroll_tables(body)
            # a table row handed to the helper: `name, cls, lo, hi, tagged = ('arc', Arc, 5, 6, (6,))` - the cells
            # that are constants are written where they are read
            body = _propagate_row_constants(pre, body)
        res = '__r%d' % k
        rets = [n for s in body for n in ast.walk(s) if isinstance(n, ast.Return)]
        tail_only = len(rets) == 1 and body and rets[0] is body[-1]
        if not rets:
            stmts = body + [assign(res, ast.Constant(value=None), call)]
        elif tail_only:
            stmts = body[:-1] + [assign(res, rets[0].value if rets[0].value is not None else ast.Constant(value=None), rets[0])]
        else:
            # early returns: run the body once inside a one-element loop, `return v` -> `__r = v; break`
            done = '__done%d' % k
            uses_flag = [False]

            def rewrite(lst, inloop=False):
                out = []
                for s in lst:
                    if isinstance(s, ast.Return):
                        out.append(assign(res, s.value if s.value is not None else ast.Constant(value=None), s))
                        if inloop:
                            # a return inside a loop of the helper: leave that loop with the flag set; every
                            # enclosing loop of the helper is left by the `if __done: break` placed after it
                            uses_flag[0] = True
                            out.append(assign(done, ast.Constant(value=True), s))
                        b = ast.Break()
                        ast.copy_location(b, s)
                        out.append(b)
                        continue
                    if isinstance(s, (ast.For, ast.While)):
                        if any(isinstance(x, ast.Return) for x in ast.walk(s)):
                            s.body = rewrite(s.body, True)
                            s.orelse = rewrite(s.orelse, inloop)
                            out.append(s)
                            t = ast.If(test=ast.Name(id=done, ctx=ast.Load()), body=[ast.Break()], orelse=[])
                            for x in ast.walk(t):
                                ast.copy_location(x, s)
                            out.append(t)
                            continue
                        out.append(s)
                        continue
                    for fld in ('body', 'orelse', 'finalbody'):
                        if hasattr(s, fld) and isinstance(getattr(s, fld), list):
                            setattr(s, fld, rewrite(getattr(s, fld), inloop))
                    if isinstance(s, ast.Try):
                        for h in s.handlers:
                            h.body = rewrite(h.body, inloop)
                    out.append(s)
                return out
            inner = rewrite(body)
            if uses_flag[0]:
                inner.insert(0, assign(done, ast.Constant(value=False), call))
            if not inner or not isinstance(inner[-1], ast.Break):
                inner.append(assign(res, ast.Constant(value=None), call))
            loop = ast.For(target=ast.Name(id='__once%d' % k, ctx=ast.Store()),
                           iter=ast.Tuple(elts=[ast.Constant(value=0)], ctx=ast.Load()), body=inner, orelse=[])
            ast.copy_location(loop, call)
            for x in ast.walk(loop.target):
                ast.copy_location(x, call)
            for x in ast.walk(loop.iter):
                ast.copy_location(x, call)
            stmts = [loop]
        self.inlined.append(g.qual)
        stmts = self.block(pre + stmts, stack + [g.qual])
        name = ast.Name(id=res, ctx=ast.Load())
        ast.copy_location(name, call)
        return stmts, name

    def _unroll_tables(self, stmts):
        out = []
        for st in stmts:
            if isinstance(st, ast.For) and isinstance(st.iter, ast.Name) and isinstance(st.target, ast.Name):
                des = self._desugar(st)
                if des is not None:
                    out += self._unroll_tables(des)
                    continue
            for fld in ('body', 'orelse', 'finalbody'):
                if hasattr(st, fld) and isinstance(getattr(st, fld), list) and not isinstance(st, (ast.FunctionDef, ast.ClassDef)):
                    setattr(st, fld, self._unroll_tables(getattr(st, fld)))
            if isinstance(st, ast.Try):
                for h in st.handlers:
                    h.body = self._unroll_tables(h.body)
            out.append(st)
        return out

    # ------------------------------------------------------------------ statements
    def block(self, stmts, stack):
        out = []
        for st in stmts:
            out += self.stmt(st, stack)
        return out

    def _desugar(self, st):
        """spell out, statement by statement, what a loop / comprehension over a literal of plain names does:
             a, b = (E(e) for e in (X, Y))      ->   a = E(X); b = E(Y)
             for e in (X, Y): e /= d            ->   X /= d; Y /= d
        (None when st is not of this kind)"""
        def plain(a):
            if isinstance(a, ast.Constant) or (isinstance(a, ast.UnaryOp) and isinstance(a.operand, ast.Constant)):
                return True
            while isinstance(a, ast.Attribute):
                a = a.value
            return isinstance(a, ast.Name)

        def literal_items(it):
            """items of a literal, of enumerate(literal) as (index, item) pairs, of zip(literal, literal)"""
            if isinstance(it, ast.Attribute) and isinstance(it.value, ast.Name) and it.value.id in ('self', 'cls') and \
               self.func.cls is not None:
                # a class-level table of constants (never stored on an instance)
                from .symx import class_constants
                tbl = class_constants(self.ctx, self.func.cls).get(it.attr)
                if isinstance(tbl, ast.Tuple) and all(isinstance(r_, ast.Tuple) and all(plain(x_) for x_ in r_.elts) or plain(r_)
                                                      for r_ in tbl.elts):
                    return [_clone(r_) for r_ in tbl.elts]
            if isinstance(it, ast.Name) and getattr(self, 'root', None) is not None:
                # a local table: the name is bound once, to a tuple literal, and nowhere else in the function
                binds = [x_ for x_ in ast.walk(self.root) if isinstance(x_, ast.Name) and x_.id == it.id and
                         not isinstance(x_.ctx, ast.Load)]
                if len(binds) == 1:
                    par = getattr(binds[0], '_fparent', None)
                    if isinstance(par, ast.Assign) and len(par.targets) == 1 and par.targets[0] is binds[0] and \
                       isinstance(par.value, ast.Tuple) and it.id not in self.func.all_params:
                        return literal_items(par.value)
            if isinstance(it, ast.Name) and getattr(self, 'root', None) is not None and it.id not in self.func.all_params and \
               not any(isinstance(x_, ast.Name) and x_.id == it.id and not isinstance(x_.ctx, ast.Load) for x_ in ast.walk(self.root)):
                # a module-level table: bound once at the top level of the module to a tuple of rows
                tops = [t_ for t_ in self.func.module.tree.body if isinstance(t_, ast.Assign) and len(t_.targets) == 1
                        and isinstance(t_.targets[0], ast.Name) and t_.targets[0].id == it.id]
                others = [t_ for t_ in ast.walk(self.func.module.tree) if isinstance(t_, ast.Name) and t_.id == it.id
                          and not isinstance(t_.ctx, ast.Load)]
                if len(tops) == 1 and len(others) == 1 and isinstance(tops[0].value, ast.Tuple):
                    def cell(x_):
                        return plain(x_) or (isinstance(x_, ast.Tuple) and all(isinstance(y_, ast.Constant) for y_ in x_.elts))
                    tbl = tops[0].value
                    if tbl.elts and all(isinstance(r_, ast.Tuple) and all(cell(x_) for x_ in r_.elts) for r_ in tbl.elts):
                        return [_clone(r_) for r_ in tbl.elts]
            if isinstance(it, (ast.Tuple, ast.List)) and all(plain(e) for e in it.elts):
                return list(it.elts)
            if isinstance(it, (ast.Tuple, ast.List)) and it.elts and all(
                    isinstance(r_, ast.Tuple) and all(plain(x_) for x_ in r_.elts) for r_ in it.elts):
                return list(it.elts)
            if isinstance(it, ast.Call) and isinstance(it.func, ast.Name) and not it.keywords:
                if it.func.id == 'enumerate' and len(it.args) == 1:
                    inner = literal_items(it.args[0])
                    if inner is not None:
                        return [ast.Tuple(elts=[ast.Constant(value=i_), e_], ctx=ast.Load()) for i_, e_ in enumerate(inner)]
                if it.func.id == 'zip' and it.args:
                    cols = [literal_items(a_) for a_ in it.args]
                    if all(c_ is not None for c_ in cols) and len({len(c_) for c_ in cols}) == 1:
                        return [ast.Tuple(elts=list(r_), ctx=ast.Load()) for r_ in zip(*cols)]
            return None

        def put(node, name, value):
            def rec(n):
                for fld, val in ast.iter_fields(n):
                    if isinstance(val, list):
                        for i_, x in enumerate(val):
                            if isinstance(x, ast.Name) and x.id == name:
                                val[i_] = _retarget(value, x)
                            elif isinstance(x, ast.AST):
                                rec(x)
                    elif isinstance(val, ast.Name) and val.id == name:
                        setattr(n, fld, _retarget(value, val))
                    elif isinstance(val, ast.AST):
                        rec(val)
            node = _clone(node)
            if isinstance(node, ast.Name) and node.id == name:
                return _retarget(value, node)
            rec(node)
            return node

        def _retarget(value, like):
            v = _clone(value)
            if hasattr(v, 'ctx'):
                v.ctx = like.ctx.__class__()
            for y in ast.walk(v):
                ast.copy_location(y, like)
            return v
        if isinstance(st, ast.Assign) and len(st.targets) == 1 and isinstance(st.targets[0], ast.Name):
            # X = dict((k, E(k)) for k in (c1, c2)) / X = {k: E(k) for k in (c1, c2)}  ->  X = {}; X[c1] = E(c1); X[c2] = E(c2)
            v = st.value
            comp = None
            if isinstance(v, ast.Call) and isinstance(v.func, ast.Name) and v.func.id == 'dict' and len(v.args) == 1 and \
               not v.keywords and isinstance(v.args[0], (ast.GeneratorExp, ast.ListComp)) and \
               isinstance(v.args[0].elt, ast.Tuple) and len(v.args[0].elt.elts) == 2:
                comp, kx, vx = v.args[0], v.args[0].elt.elts[0], v.args[0].elt.elts[1]
            elif isinstance(v, ast.DictComp):
                comp, kx, vx = v, v.key, v.value
            if comp is not None and len(comp.generators) == 1 and not comp.generators[0].ifs and \
               isinstance(comp.generators[0].target, ast.Name):
                items = literal_items(comp.generators[0].iter)
                tn = comp.generators[0].target.id
                if items is not None and 1 <= len(items) <= 6 and all(plain(i_) for i_ in items):
                    init = ast.Assign(targets=[_clone(st.targets[0])], value=ast.Dict(keys=[], values=[]))
                    ast.copy_location(init, st)
                    ast.fix_missing_locations(init)
                    out = [init]
                    for it_ in items:
                        a = ast.Assign(targets=[ast.Subscript(value=ast.Name(id=st.targets[0].id, ctx=ast.Load()),
                                                              slice=put(kx, tn, it_), ctx=ast.Store())],
                                       value=put(vx, tn, it_))
                        ast.copy_location(a, st)
                        ast.fix_missing_locations(a)
                        out.append(a)
                    return out
        if isinstance(st, ast.Assign) and len(st.targets) == 1 and isinstance(st.targets[0], ast.Tuple) and \
           isinstance(st.value, (ast.GeneratorExp, ast.ListComp)) and len(st.value.generators) == 1:
            g = st.value.generators[0]
            if isinstance(g.target, ast.Name) and not g.ifs and isinstance(g.iter, (ast.Tuple, ast.List)) and \
               len(g.iter.elts) == len(st.targets[0].elts) <= 6 and all(plain(e) for e in g.iter.elts) and \
               all(isinstance(t, ast.Name) for t in st.targets[0].elts):
                out = []
                for t, e in zip(st.targets[0].elts, g.iter.elts):
                    a = ast.Assign(targets=[_clone(t)], value=put(st.value.elt, g.target.id, e))
                    ast.copy_location(a, st)
                    ast.fix_missing_locations(a)
                    out.append(a)
                return out
        items_ = literal_items(st.iter) if isinstance(st, ast.For) else None
        if isinstance(st, ast.For) and not st.orelse and isinstance(st.target, ast.Tuple) and items_ is not None and \
           1 <= len(items_) <= 4 and all(isinstance(t_, ast.Name) for t_ in st.target.elts) and \
           all(isinstance(i_, ast.Tuple) and len(i_.elts) == len(st.target.elts) and all(plain(x_) for x_ in i_.elts) for i_ in items_) and \
           len(st.body) <= 6 and not _own_break_continue(st) and \
           not any(isinstance(n, ast.Name) and n.id in {t_.id for t_ in st.target.elts} and isinstance(n.ctx, ast.Store)
                   for b in st.body for n in ast.walk(b)):
            # for a, b in enumerate((X, Y)) / zip(...) over literals: the body once per row, names replaced
            out = []
            for row in items_:
                for b in st.body:
                    nb = b
                    for t_, e_ in zip(st.target.elts, row.elts):
                        nb = put(nb, t_.id, e_)
                    ast.copy_location(nb, b)
                    ast.fix_missing_locations(nb)
                    out.append(nb)
            return out
        if isinstance(st, ast.For) and not st.orelse and isinstance(st.target, ast.Name) and isinstance(st.iter, ast.Name) and \
           items_ is not None and 1 <= len(items_) <= 4 and all(isinstance(i_, ast.Tuple) for i_ in items_) and \
           not _own_break_continue(st) and \
           not any(isinstance(n, ast.Name) and n.id == st.target.id and isinstance(n.ctx, ast.Store)
                   for b in st.body for n in ast.walk(b)):
            # for row in TABLE (a module-level / local table of rows): the body once per row, `row` written out;
            # `row[i]` is the cell
            out = []
            for row in items_:
                for b in st.body:
                    nb = put(b, st.target.id, row)
                    nb = _fold_literal_index(nb)
                    ast.copy_location(nb, b)
                    ast.fix_missing_locations(nb)
                    out.append(nb)
            return out
        if isinstance(st, ast.For) and not st.orelse and isinstance(st.target, ast.Name) and \
           isinstance(st.iter, (ast.Tuple, ast.List)) and 1 <= len(st.iter.elts) <= 4 and \
           all(plain(e) for e in st.iter.elts) and len(st.body) <= 3 and \
           not any(isinstance(n, (ast.Break, ast.Continue, ast.For, ast.While, ast.If, ast.Try, ast.With, ast.Return))
                   for b in st.body for n in ast.walk(b)) and \
           not any(isinstance(n, ast.Name) and n.id == st.target.id and isinstance(n.ctx, ast.Store) and
                   not (isinstance(b, ast.AugAssign) and b.target is n)
                   for b in st.body for n in ast.walk(b)):
            out = []
            for e in st.iter.elts:
                for b in st.body:
                    nb = put(b, st.target.id, e)
                    ast.copy_location(nb, b)
                    ast.fix_missing_locations(nb)
                    out.append(nb)
            return out
        return None

    def stmt(self, st, stack):
        des = self._desugar(st)
        if des is not None:
            return self.block(des, stack)
        for fld in ('body', 'orelse', 'finalbody'):
            if hasattr(st, fld) and isinstance(getattr(st, fld), list) and not isinstance(st, (ast.FunctionDef, ast.ClassDef)):
                setattr(st, fld, self.block(getattr(st, fld), stack))
        if isinstance(st, ast.Try):
            for h in st.handlers:
                h.body = self.block(h.body, stack)
        if len(stack) > self.depth:
            return [st]
        pre = []
        for call, g in self.hoistable_calls(st, stack):
            if isinstance(g, list):
                # a call through a local that holds one of several private bound methods:
                #   if f is self._a: <body of _a> elif f is self._b: <body of _b>
                self.counter[0] += 1
                res = '__d%d' % self.counter[0]
                chain = None
                okall = True
                for attr_node, g_ in reversed(g):
                    c2 = ast.Call(func=_clone(attr_node), args=call.args, keywords=call.keywords)
                    ast.copy_location(c2, call)
                    g2 = self.callee(c2, stack)
                    r2 = self.expand(c2, g2, stack) if g2 is not None else None
                    if r2 is None:
                        okall = False
                        break
                    stmts2, nm2 = r2
                    setres = ast.Assign(targets=[ast.Name(id=res, ctx=ast.Store())], value=nm2)
                    ast.copy_location(setres, call)
                    test = ast.Compare(left=ast.Name(id=call.func.id, ctx=ast.Load()), ops=[ast.Is()],
                                       comparators=[_clone(attr_node)])
                    if chain is None:
                        # the last candidate: if none of the others, it is this one
                        chain = stmts2 + [setres]
                        continue
                    node = ast.If(test=test, body=stmts2 + [setres], orelse=chain if isinstance(chain, list) else [chain])
                    ast.copy_location(node, call)
                    chain = node
                if not okall or chain is None:
                    continue
                chain_l = chain if isinstance(chain, list) else [chain]
                for c_ in chain_l:
                    ast.fix_missing_locations(c_)
                stmts, name = chain_l, ast.Name(id=res, ctx=ast.Load())
                ast.copy_location(name, call)
            else:
                r = self.expand(call, g, stack)
                if r is None:
                    continue
                stmts, name = r
            pre += stmts
            # replace the call node in place
            for n in ast.walk(st):
                for fld, val in ast.iter_fields(n):
                    if val is call:
                        setattr(n, fld, name)
                    elif isinstance(val, list):
                        for i, x in enumerate(val):
                            if x is call:
                                val[i] = name
        return pre + [st]


def _const_key(sl):
    """identifier fragment for a constant subscript (int / float / identifier-like string, also negative), else None"""
    neg = ''
    if isinstance(sl, ast.UnaryOp) and isinstance(sl.op, ast.USub):
        neg, sl = 'm', sl.operand
    if not isinstance(sl, ast.Constant) or isinstance(sl.value, bool):
        return None
    v = sl.value
    if isinstance(v, (int, float)):
        if v < 0:
            neg, v = 'm', -v
        return neg + str(v).replace('.', '_').replace('+', '').replace('-', 'm')
    if isinstance(v, str) and v.isidentifier() and not neg:
        return v
    return None


def _scalarise_tables(node):
    """a local that starts as {} / dict() and is only ever used as NAME[<constant>] (after the loops over literal
    tables were spelled out) is a handful of scalars: NAME[0] -> NAME__0"""
    inits = {}
    for s in ast.walk(node):
        if isinstance(s, ast.Assign) and len(s.targets) == 1 and isinstance(s.targets[0], ast.Name):
            v = s.value
            empty = (isinstance(v, ast.Dict) and not v.keys) or (
                isinstance(v, ast.Call) and isinstance(v.func, ast.Name) and v.func.id == 'dict' and not v.args and not v.keywords)
            inits.setdefault(s.targets[0].id, []).append(empty)
    names = {k for k, v in inits.items() if v == [True]}
    if not names:
        return
    ok = set(names)
    parents = {}
    for x in ast.walk(node):
        for ch in ast.iter_child_nodes(x):
            parents[id(ch)] = x
    for n in ast.walk(node):
        if isinstance(n, ast.Name) and n.id in ok:
            p = parents.get(id(n))
            if isinstance(p, ast.Assign) and p.targets and p.targets[0] is n:
                continue
            if not (isinstance(p, ast.Subscript) and p.value is n and _const_key(p.slice) is not None):
                ok.discard(n.id)
    if not ok:
        return

    def rec(x):
        for fld, val in ast.iter_fields(x):
            if isinstance(val, list):
                for i_, y in enumerate(val):
                    if isinstance(y, ast.AST):
                        val[i_] = fix(y)
            elif isinstance(val, ast.AST):
                setattr(x, fld, fix(val))

    def fix(y):
        if isinstance(y, ast.Subscript) and isinstance(y.value, ast.Name) and y.value.id in ok and _const_key(y.slice) is not None:
            new = ast.Name(id='%s__%s' % (y.value.id, _const_key(y.slice)), ctx=y.ctx.__class__())
            return ast.copy_location(new, y)
        rec(y)
        return y
    rec(node)


def _propagate_row_constants(pre, body):
    """names bound exactly once (in pre + body) by `a, b = (<literals>)` or `a = <tuple literal>; x, y = a` to a
    number / string / tuple of constants are replaced by the constant in the body"""
    stmts = list(pre) + list(body)
    stores = {}
    for s in stmts:
        for n in ast.walk(s):
            if isinstance(n, ast.Name) and isinstance(n.ctx, (ast.Store, ast.Del)):
                stores[n.id] = stores.get(n.id, 0) + 1
            elif isinstance(n, (ast.AugAssign,)) and isinstance(n.target, ast.Name):
                stores[n.target.id] = stores.get(n.target.id, 0) + 1

    def const(v):
        if isinstance(v, ast.Constant) and isinstance(v.value, (int, float, str)) and not isinstance(v.value, bool):
            return True
        if isinstance(v, ast.UnaryOp) and isinstance(v.op, ast.USub) and isinstance(v.operand, ast.Constant):
            return True
        return isinstance(v, ast.Tuple) and v.elts and all(isinstance(e, ast.Constant) for e in v.elts)
    tup = {}
    env = {}
    for s in stmts:         # top level only: bound before anything else of the helper runs
        if isinstance(s, ast.Assign) and len(s.targets) == 1:
            t, v = s.targets[0], s.value
            if isinstance(v, ast.Name) and v.id in tup:
                v = tup[v.id]
            if isinstance(t, ast.Name) and isinstance(v, ast.Tuple) and stores.get(t.id) == 1:
                tup[t.id] = v
            if isinstance(t, ast.Tuple) and isinstance(v, ast.Tuple) and len(t.elts) == len(v.elts):
                for te, ve in zip(t.elts, v.elts):
                    if isinstance(te, ast.Name) and stores.get(te.id) == 1 and const(ve):
                        env[te.id] = ve
    if not env:
        return body

    def rec(x):
        for fld, val in ast.iter_fields(x):
            if isinstance(val, list):
                for i_, y in enumerate(val):
                    if isinstance(y, ast.AST):
                        val[i_] = fix(y)
            elif isinstance(val, ast.AST):
                setattr(x, fld, fix(val))
        return x

    def fix(y):
        if isinstance(y, ast.Name) and isinstance(y.ctx, ast.Load) and y.id in env:
            return ast.copy_location(_clone(env[y.id]), y)
        return rec(y)
    return [fix(s) for s in body]


def _scalarise_append_lists(node):
    """a local list filled by a fixed number of appends in straight-line code and read by constant index
    (`parts = []; parts.append(a); parts.append(b); return parts[0] + parts[1]` - what is left of a loop over a
    literal after it was written out) becomes one name per entry"""
    def blocks(x):
        for fld in ('body', 'orelse', 'finalbody'):
            b = getattr(x, fld, None)
            if isinstance(b, list) and b and isinstance(b[0], ast.stmt):
                yield b
        for h in getattr(x, 'handlers', []) or []:
            yield h.body
    todo = [node]
    all_blocks = []
    while todo:
        x = todo.pop()
        for b in blocks(x):
            all_blocks.append(b)
            for st in b:
                if not isinstance(st, (ast.FunctionDef, ast.ClassDef)):
                    todo.append(st)
    uses = {}
    for x in ast.walk(node):
        if isinstance(x, ast.Name):
            uses.setdefault(x.id, []).append(x)
    par = {}
    for x in ast.walk(node):
        for ch in ast.iter_child_nodes(x):
            par[id(ch)] = x
    for b in all_blocks:
        for st in list(b):
            if not (isinstance(st, ast.Assign) and len(st.targets) == 1 and isinstance(st.targets[0], ast.Name)
                    and isinstance(st.value, ast.List) and not st.value.elts):
                continue
            nm = st.targets[0].id
            appends, reads, ok = [], [], True
            for u in uses.get(nm, []):
                if u is st.targets[0]:
                    continue
                p = par.get(id(u))
                if isinstance(u.ctx, ast.Load) and isinstance(p, ast.Attribute) and p.attr == 'append' and \
                        isinstance(par.get(id(p)), ast.Call) and isinstance(par.get(id(par[id(p)])), ast.Expr) and \
                        par[id(par[id(p)])] in b and len(par[id(p)].args) == 1 and not par[id(p)].keywords:
                    appends.append(par[id(par[id(p)])])
                elif isinstance(u.ctx, ast.Load) and isinstance(p, ast.Subscript) and p.value is u and isinstance(p.ctx, ast.Load) and \
                        isinstance(p.slice, ast.Constant) and isinstance(p.slice.value, int) and not isinstance(p.slice.value, bool):
                    reads.append(p)
                else:
                    ok = False
                    break
            if not ok or not appends or not reads:
                continue
            order = sorted(appends, key=lambda a: b.index(a))
            if b.index(order[0]) < b.index(st):
                continue
            n = len(order)
            if any(not (-n <= r.slice.value < n) for r in reads):
                continue
            # every read comes after the last append (same block or nested deeper later on): by position in the block
            last = b.index(order[-1])

            def top_of(x):
                while id(x) in par and par[id(x)] is not None and x not in b:
                    x = par[id(x)]
                return x if x in b else None
            if any(top_of(r) is None or b.index(top_of(r)) <= last for r in reads):
                continue
            for k, a in enumerate(order):
                new = ast.Assign(targets=[ast.Name(id='%s__%d' % (nm, k), ctx=ast.Store())], value=a.value.args[0])
                ast.copy_location(new, a)
                ast.fix_missing_locations(new)
                b[b.index(a)] = new
            b.remove(st)
            for r in reads:
                k = r.slice.value % n
                r_par = par[id(r)]
                newn = ast.Name(id='%s__%d' % (nm, k), ctx=ast.Load())
                ast.copy_location(newn, r)
                for fld, val in ast.iter_fields(r_par):
                    if val is r:
                        setattr(r_par, fld, newn)
                    elif isinstance(val, list):
                        for i_, y in enumerate(val):
                            if y is r:
                                val[i_] = newn


def _fold_literal_index(node):
    """(a, b, c)[1] -> b  (after a table row was written out in place of the loop variable)"""
    def rec(x):
        for fld, val in ast.iter_fields(x):
            if isinstance(val, list):
                for i_, y in enumerate(val):
                    if isinstance(y, ast.AST):
                        val[i_] = fix(y)
            elif isinstance(val, ast.AST):
                setattr(x, fld, fix(val))
        return x

    def fix(y):
        y = rec(y)
        if isinstance(y, ast.Subscript) and isinstance(y.value, ast.Tuple) and isinstance(y.slice, ast.Constant) and \
                isinstance(y.slice.value, int) and not isinstance(y.slice.value, bool) and isinstance(y.ctx, ast.Load) and \
                -len(y.value.elts) <= y.slice.value < len(y.value.elts):
            return ast.copy_location(y.value.elts[y.slice.value], y)
        return y
    return fix(node)


def _own_break_continue(loop):
    """does the loop body hold a break / continue of this very loop (not of a loop nested in it)?"""
    todo = list(loop.body)
    while todo:
        n = todo.pop()
        if isinstance(n, (ast.Break, ast.Continue)):
            return True
        if isinstance(n, (ast.For, ast.While, ast.FunctionDef, ast.Lambda, ast.ClassDef)):
            todo.extend(getattr(n, 'orelse', []) if isinstance(n, (ast.For, ast.While)) else [])
            continue
        todo.extend(ast.iter_child_nodes(n))
    return False


def _tuple_index(sl, flds):
    """the position a constant subscript reads of a packed tuple with the positions `flds` (None: not one)"""
    if isinstance(sl, ast.Constant) and isinstance(sl.value, str):
        return sl.value if sl.value in flds else None      # (a dict display read by a constant key)
    if isinstance(sl, ast.Constant) and isinstance(sl.value, int) and not isinstance(sl.value, bool) and \
       sl.value in flds and not all(isinstance(k_, int) and 0 <= k_ < len(flds) for k_ in flds):
        return sl.value
    if isinstance(sl, ast.UnaryOp) and isinstance(sl.op, ast.USub) and isinstance(sl.operand, ast.Constant) and \
       isinstance(sl.operand.value, int) and not isinstance(sl.operand.value, bool):
        i = len(flds) - sl.operand.value
    elif isinstance(sl, ast.Constant) and isinstance(sl.value, int) and not isinstance(sl.value, bool):
        i = sl.value if sl.value >= 0 else len(flds) + sl.value
    else:
        return None
    return i if i in flds else None


_FRESH_ARRAYS = ('np.zeros', 'np.ones', 'np.empty', 'np.full', 'np.array', 'np.eye', 'numpy.zeros', 'numpy.ones',
                 'numpy.empty', 'numpy.full', 'numpy.array', 'np.zeros_like', 'np.ones_like', 'np.empty_like')


def _accumulate_as_augassign(node):
    """`T = T + E` / `T = E + T`(numbers) with the very same target text on both sides is the accumulation `T += E`
    (for the rules that look for what is added to a result per image / per element; the value is the same)"""
    def rec(x):
        for fld, val in ast.iter_fields(x):
            if isinstance(val, list):
                for i_, y in enumerate(val):
                    if isinstance(y, ast.Assign) and len(y.targets) == 1 and isinstance(y.value, ast.BinOp) and \
                       isinstance(y.value.op, (ast.Add, ast.Sub)) and isinstance(y.targets[0], (ast.Name, ast.Subscript, ast.Attribute)) \
                       and norm(y.value.left) == norm(y.targets[0]):
                        new = ast.AugAssign(target=y.targets[0], op=y.value.op, value=y.value.right)
                        ast.copy_location(new, y)
                        val[i_] = new
                    elif isinstance(y, ast.AST):
                        rec(y)
            elif isinstance(val, ast.AST):
                rec(val)
    rec(node)


def _sort_as_sorted(node):
    """`X.sort(key=K)` on a local list is `X = sorted(X, key=K)` for everything that reads X afterwards (the
    dataflow rules follow names, not in-place changes)"""
    params = {a.arg for a in node.args.posonlyargs + node.args.args + node.args.kwonlyargs}

    def rec(x):
        for fld, val in ast.iter_fields(x):
            if isinstance(val, list):
                for i_, y in enumerate(val):
                    if isinstance(y, ast.Expr) and isinstance(y.value, ast.Call) and isinstance(y.value.func, ast.Attribute) and \
                       y.value.func.attr == 'sort' and isinstance(y.value.func.value, ast.Name) and not y.value.args and \
                       y.value.func.value.id not in params and all(k.arg in ('key', 'reverse') for k in y.value.keywords):
                        nm = y.value.func.value.id
                        new = ast.Assign(targets=[ast.Name(id=nm, ctx=ast.Store())],
                                         value=ast.Call(func=ast.Name(id='sorted', ctx=ast.Load()),
                                                        args=[ast.Name(id=nm, ctx=ast.Load())], keywords=y.value.keywords))
                        ast.copy_location(new, y)
                        ast.fix_missing_locations(new)
                        val[i_] = new
                    elif isinstance(y, ast.AST):
                        rec(y)
            elif isinstance(val, ast.AST):
                rec(val)
    rec(node)


def _chain_attr_alias(node):
    """`self.X = x = <fresh array / list / dict>` (x bound nowhere else): x is another name of the object kept in
    self.X - every use of x, its in-place updates included, is written as self.X"""
    binds = {}
    for n in ast.walk(node):
        if isinstance(n, ast.Name) and isinstance(n.ctx, (ast.Store, ast.Del)):
            binds.setdefault(n.id, []).append(n)
    params = {a.arg for a in node.args.posonlyargs + node.args.args + node.args.kwonlyargs}
    parents = {}
    for x in ast.walk(node):
        for ch in ast.iter_child_nodes(x):
            parents[id(ch)] = x
    alias = {}
    for st in ast.walk(node):
        if not (isinstance(st, ast.Assign) and len(st.targets) == 2):
            continue
        names = [t for t in st.targets if isinstance(t, ast.Name)]
        attrs = [t for t in st.targets if isinstance(t, ast.Attribute) and isinstance(t.value, ast.Name) and t.value.id == 'self']
        if len(names) != 1 or len(attrs) != 1 or names[0].id in params:
            continue
        v = st.value
        fresh = isinstance(v, (ast.List, ast.Dict)) or (isinstance(v, ast.Call) and (dotted(v.func) or '') in _FRESH_ARRAYS)
        if not fresh:
            continue
        nm = names[0].id
        # every other binding of the name is an in-place update (x += ..): the object stays the same one
        others = [b for b in binds.get(nm, []) if b is not names[0]]
        if any(not (isinstance(parents.get(id(b)), ast.AugAssign) and parents[id(b)].target is b) for b in others):
            continue
        if others and isinstance(v, (ast.List, ast.Dict)) is False and not isinstance(v, ast.Call):
            continue
        alias[nm] = (st, names[0], attrs[0])
    if not alias:
        return
    for nm, (st, nt, at) in alias.items():
        st.targets = [at]

    def rec(x):
        for fld, val in ast.iter_fields(x):
            if isinstance(val, list):
                for i_, y in enumerate(val):
                    if isinstance(y, ast.AST):
                        val[i_] = fix(y)
            elif isinstance(val, ast.AST):
                setattr(x, fld, fix(val))

    def fix(y):
        if isinstance(y, ast.Name) and y.id in alias:
            new = _clone(alias[y.id][2])
            new.ctx = y.ctx.__class__()
            for z in ast.walk(new):
                ast.copy_location(z, y)
            return new
        rec(y)
        return y
    rec(node)


def _inplace_attr_alias(node):
    """`x = self.X` where self.X was given a fresh array earlier in the same function (every store of self.X is such
    an assignment, all written before) and x is otherwise only updated in place (x += ..): x names the object in
    self.X - uses and in-place updates are written on self.X"""
    order = {}
    for i, n in enumerate(_preorder_nodes(node)):
        order[id(n)] = i
    parents = parents_of(node)
    stores = {}
    for n in ast.walk(node):
        if isinstance(n, ast.Attribute) and isinstance(n.ctx, (ast.Store, ast.Del)) and isinstance(n.value, ast.Name) and \
           n.value.id == 'self':
            stores.setdefault(n.attr, []).append(n)
    binds = {}
    for n in ast.walk(node):
        if isinstance(n, ast.Name) and isinstance(n.ctx, (ast.Store, ast.Del)):
            binds.setdefault(n.id, []).append(n)
    params = {a.arg for a in node.args.posonlyargs + node.args.args + node.args.kwonlyargs}
    alias = {}
    for st in ast.walk(node):
        if not (isinstance(st, ast.Assign) and len(st.targets) == 1 and isinstance(st.targets[0], ast.Name) and
                isinstance(st.value, ast.Attribute) and isinstance(st.value.value, ast.Name) and st.value.value.id == 'self'):
            continue
        nm, attr = st.targets[0].id, st.value.attr
        if nm in params or attr not in stores:
            continue
        fresh = True
        for a in stores[attr]:
            pa = parents.get(id(a))
            if not (isinstance(pa, ast.Assign) and a in pa.targets and isinstance(pa.value, ast.Call) and
                    (dotted(pa.value.func) or '') in _FRESH_ARRAYS and order[id(pa)] < order[id(st)]):
                fresh = False
        others = [b for b in binds.get(nm, []) if b is not st.targets[0]]
        if not fresh or not others or \
           any(not (isinstance(parents.get(id(b)), ast.AugAssign) and parents[id(b)].target is b) for b in others):
            continue
        alias[nm] = (st, st.value)
    if not alias:
        return

    def rec(x):
        for fld, val in ast.iter_fields(x):
            if isinstance(val, list):
                new = []
                for y in val:
                    if isinstance(y, ast.Assign) and any(y is a_[0] for a_ in alias.values()):
                        continue
                    new.append(fix(y) if isinstance(y, ast.AST) else y)
                val[:] = new or ([ast.copy_location(ast.Pass(), x)] if fld == 'body' and val else new)
            elif isinstance(val, ast.AST):
                setattr(x, fld, fix(val))

    def fix(y):
        if isinstance(y, ast.Name) and y.id in alias:
            new = _clone(alias[y.id][1])
            new.ctx = y.ctx.__class__()
            for z in ast.walk(new):
                ast.copy_location(z, y)
            return new
        rec(y)
        return y
    rec(node)


def _preorder_nodes(node):
    yield node
    for ch in ast.iter_child_nodes(node):
        yield from _preorder_nodes(ch)


def _scalarise_objects(ctx, node, counter):
    """`obj = _Cls(a, b)` where _Cls is a private class of the package that only has a constructor (a bundle of
    values computed once) and obj is only ever read attribute by attribute: the constructor body is written out
    in place (self.attr -> obj__attr, its locals renamed) and obj.attr reads obj__attr"""
    classes = ctx.model.classes
    asg = {}
    for s in ast.walk(node):
        if isinstance(s, ast.Name) and isinstance(s.ctx, (ast.Store, ast.Del)):
            asg.setdefault(s.id, []).append(s)
    parents = {}
    for x in ast.walk(node):
        for ch in ast.iter_child_nodes(x):
            parents[id(ch)] = x
    cands = {}
    for nm, bs in asg.items():
        if len(bs) != 1:
            continue
        st = parents.get(id(bs[0]))
        if not (isinstance(st, ast.Assign) and len(st.targets) == 1 and st.targets[0] is bs[0]):
            continue
        v = st.value
        if not (isinstance(v, ast.Call) and isinstance(v.func, ast.Name) and v.func.id in classes and v.func.id.startswith('_')):
            continue
        ci = classes[v.func.id]
        if set(ci.methods) != {'__init__'} or ci.setters or [b for b in ci.base_names if b not in (None, 'object')]:
            continue
        init = ci.methods['__init__']
        a = init.node.args
        if a.vararg or a.kwarg or a.kwonlyargs or any(isinstance(x, ast.Starred) for x in v.args) or \
           any(k.arg is None for k in v.keywords):
            continue
        body = init.body()
        if any(isinstance(x, (ast.Return, ast.Yield, ast.YieldFrom, ast.Global, ast.Nonlocal, ast.FunctionDef, ast.Lambda))
               for b in body for x in ast.walk(b)):
            continue
        self_name = init.params[0]
        # self is only used as self.attr
        bad = False
        for b in body:
            for x in ast.walk(b):
                if isinstance(x, ast.Name) and x.id == self_name:
                    bad = bad or not isinstance(parents_of(b).get(id(x)), ast.Attribute)
        if bad:
            continue
        params = init.params[1:]
        bind = {}
        for p_, arg in zip(params, v.args):
            bind[p_] = arg
        for k in v.keywords:
            bind[k.arg] = k.value
        for p_, d in init.defaults().items():
            bind.setdefault(p_, d)
        if set(bind) != set(params):
            continue
        cands[nm] = (st, init, body, self_name, bind)
    if not cands:
        return
    ok = {}
    for nm, c in cands.items():
        good = True
        for n in ast.walk(node):
            if isinstance(n, ast.Name) and n.id == nm and isinstance(n.ctx, ast.Load):
                p = parents.get(id(n))
                if not (isinstance(p, ast.Attribute) and p.value is n and isinstance(p.ctx, ast.Load)):
                    good = False
        if good:
            ok[nm] = c
    if not ok:
        return

    def inline(nm, st, init, body, self_name, bind):
        counter[0] += 1
        suf = '__o%d' % counter[0]
        local = {x.id for b in body for x in ast.walk(b) if isinstance(x, ast.Name) and isinstance(x.ctx, ast.Store)}
        pre = []
        sub = {}
        for p_, arg in bind.items():
            if isinstance(arg, (ast.Name, ast.Constant)) or (isinstance(arg, ast.Attribute) and dotted(arg)):
                if p_ in local:
                    a_ = ast.Assign(targets=[ast.Name(id=p_ + suf, ctx=ast.Store())], value=_clone(arg))
                    pre.append(ast.copy_location(a_, st))
                    sub[p_] = ast.Name(id=p_ + suf, ctx=ast.Load())
                else:
                    sub[p_] = arg
            else:
                a_ = ast.Assign(targets=[ast.Name(id=p_ + suf, ctx=ast.Store())], value=_clone(arg))
                pre.append(ast.copy_location(a_, st))
                sub[p_] = ast.Name(id=p_ + suf, ctx=ast.Load())

        def rw(y):
            if isinstance(y, ast.Attribute) and isinstance(y.value, ast.Name) and y.value.id == self_name:
                new = ast.Name(id='%s__%s' % (nm, y.attr), ctx=y.ctx.__class__())
                return ast.copy_location(new, y)
            if isinstance(y, ast.Name):
                if y.id in sub and isinstance(y.ctx, ast.Load):
                    v_ = _clone(sub[y.id])
                    for z in ast.walk(v_):
                        ast.copy_location(z, y)
                    return v_
                if y.id in local or y.id in sub:
                    return ast.copy_location(ast.Name(id=y.id + suf, ctx=y.ctx.__class__()), y)
                return y
            for fld, val in ast.iter_fields(y):
                if isinstance(val, list):
                    for i_, z in enumerate(val):
                        if isinstance(z, ast.AST):
                            val[i_] = rw(z)
                elif isinstance(val, ast.AST):
                    setattr(y, fld, rw(val))
            return y
        out = pre + [rw(_clone(b)) for b in body]
        for o in out:
            ast.fix_missing_locations(o)
        return out

    def rec(x):
        for fld, val in ast.iter_fields(x):
            if isinstance(val, list):
                new = []
                for y in val:
                    if isinstance(y, ast.Assign) and len(y.targets) == 1 and isinstance(y.targets[0], ast.Name) and \
                       y.targets[0].id in ok and y is ok[y.targets[0].id][0]:
                        new += inline(y.targets[0].id, *ok[y.targets[0].id])
                        continue
                    new.append(fix(y) if isinstance(y, ast.AST) else y)
                val[:] = new
            elif isinstance(val, ast.AST):
                setattr(x, fld, fix(val))

    def fix(y):
        if isinstance(y, ast.Attribute) and isinstance(y.value, ast.Name) and y.value.id in ok and isinstance(y.ctx, ast.Load):
            return ast.copy_location(ast.Name(id='%s__%s' % (y.value.id, y.attr), ctx=ast.Load()), y)
        rec(y)
        return y
    rec(node)


def parents_of(root):
    out = {}
    for x in ast.walk(root):
        for ch in ast.iter_child_nodes(x):
            out[id(ch)] = x
    return out


def _scalarise_records(ctx, node):
    """a local record (NamedTuple / dataclass creation, assigned once, perhaps handed on through `x = __rN`) that
    is only ever read field by field is a handful of scalars: REC.field -> REC__field"""
    from .symx import record_fields
    classes = ctx.model.classes
    asg = {}
    for s in ast.walk(node):
        if isinstance(s, ast.Assign):
            for t in s.targets:
                for x in ast.walk(t):
                    if isinstance(x, ast.Name):
                        asg.setdefault(x.id, []).append(s)
        elif isinstance(s, (ast.AugAssign, ast.AnnAssign, ast.For, ast.NamedExpr, ast.With, ast.comprehension)):
            tg = s.target if hasattr(s, 'target') else None
            for x in (ast.walk(tg) if tg is not None else ()):
                if isinstance(x, ast.Name):
                    asg.setdefault(x.id, []).append(None)
    recs = {}
    for nm, sts in asg.items():
        if len(sts) == 1 and sts[0] is not None and len(sts[0].targets) == 1 and isinstance(sts[0].targets[0], ast.Name):
            v = sts[0].value
            if isinstance(v, ast.Call) and isinstance(v.func, ast.Name) and v.func.id in classes:
                flds = record_fields(classes[v.func.id], v)
                if flds:
                    recs[nm] = (sts[0], flds)
            elif isinstance(v, ast.Tuple) and v.elts and not any(isinstance(x, ast.Starred) for x in v.elts):
                # a tuple packed once and only read by position is the same thing
                recs[nm] = (sts[0], dict(enumerate(v.elts)))
            elif isinstance(v, ast.Dict) and v.keys and all(
                    isinstance(k_, ast.Constant) and isinstance(k_.value, (str, int)) and not isinstance(k_.value, bool) for k_ in v.keys):
                # ... and so is a dict display with constant keys that is only read by constant key
                recs[nm] = (sts[0], {k_.value: x_ for k_, x_ in zip(v.keys, v.values)})
            elif isinstance(v, ast.Call) and isinstance(v.func, ast.Name) and v.func.id == 'dict' and not v.args and v.keywords and \
                    all(k_.arg is not None for k_ in v.keywords):
                recs[nm] = (sts[0], {k_.arg: k_.value for k_ in v.keywords})
    if not recs:
        return
    alias = {nm: nm for nm in recs}
    for nm, sts in asg.items():
        if nm not in recs and len(sts) == 1 and sts[0] is not None and len(sts[0].targets) == 1 and \
           isinstance(sts[0].targets[0], ast.Name) and isinstance(sts[0].value, ast.Name) and sts[0].value.id in recs:
            alias[nm] = sts[0].value.id
    parents = {}
    for x in ast.walk(node):
        for ch in ast.iter_child_nodes(x):
            parents[id(ch)] = x
    bad = set()
    for n in ast.walk(node):
        if isinstance(n, ast.Name) and n.id in alias:
            p = parents.get(id(n))
            if isinstance(p, ast.Assign) and (p.targets[0] is n or (p.value is n and isinstance(p.targets[0], ast.Name)
                                                                    and alias.get(p.targets[0].id) == n.id)):
                continue
            if isinstance(p, ast.Attribute) and p.value is n and isinstance(p.ctx, ast.Load) and \
               p.attr in recs[alias[n.id]][1]:
                continue
            if isinstance(p, ast.Subscript) and p.value is n and isinstance(p.ctx, ast.Load) and \
               _tuple_index(p.slice, recs[alias[n.id]][1]) is not None:
                continue
            bad.add(alias[n.id])
    ok = {nm for nm in alias if alias[nm] not in bad}
    if not ok:
        return

    def rec(x):
        for fld, val in ast.iter_fields(x):
            if isinstance(val, list):
                new = []
                for y in val:
                    if isinstance(y, ast.Assign) and len(y.targets) == 1 and isinstance(y.targets[0], ast.Name) and \
                       y.targets[0].id in ok:
                        nm = y.targets[0].id
                        if nm in recs and y is recs[nm][0]:
                            for f_, v_ in recs[nm][1].items():
                                if direct(v_):
                                    continue
                                a = ast.Assign(targets=[ast.Name(id='%s__%s' % (nm, f_), ctx=ast.Store())], value=fix(v_))
                                new.append(ast.copy_location(a, y))
                        continue        # `x = __rN`: another name of the same record
                    new.append(fix(y) if isinstance(y, ast.AST) else y)
                val[:] = new or ([ast.copy_location(ast.Pass(), x)] if fld in ('body',) and val else new)
            elif isinstance(val, ast.AST):
                setattr(x, fld, fix(val))

    def direct(v_):
        # a field that holds a local bound once: the field is that local
        return isinstance(v_, ast.Name) and len(asg.get(v_.id, ())) <= 1

    def fix(y):
        if isinstance(y, (ast.Attribute, ast.Subscript)) and isinstance(y.value, ast.Name) and y.value.id in ok:
            key = y.attr if isinstance(y, ast.Attribute) else _tuple_index(y.slice, recs[alias[y.value.id]][1])
            v_ = recs[alias[y.value.id]][1][key]
            if direct(v_):
                return ast.copy_location(ast.Name(id=v_.id, ctx=ast.Load()), y)
            new = ast.Name(id='%s__%s' % (alias[y.value.id], key), ctx=ast.Load())
            return ast.copy_location(new, y)
        rec(y)
        return y
    rec(node)


def _fold_const_getattr(node):
    """getattr(x, 'name') with a literal name (left by spelling out a loop over names) is x.name"""
    def rec(x):
        for fld, val in ast.iter_fields(x):
            if isinstance(val, list):
                for i_, y in enumerate(val):
                    if isinstance(y, ast.AST):
                        val[i_] = fix(y)
            elif isinstance(val, ast.AST):
                setattr(x, fld, fix(val))

    def fix(y):
        rec(y)
        if isinstance(y, ast.Call) and isinstance(y.func, ast.Name) and y.func.id == 'getattr' and len(y.args) == 2 and \
           not y.keywords and isinstance(y.args[1], ast.Constant) and isinstance(y.args[1].value, str) and \
           y.args[1].value.isidentifier():
            new = ast.Attribute(value=y.args[0], attr=y.args[1].value, ctx=ast.Load())
            return ast.copy_location(new, y)
        if isinstance(y, ast.BinOp) and isinstance(y.op, ast.Add) and isinstance(y.left, ast.Constant) and \
           isinstance(y.right, ast.Constant) and isinstance(y.left.value, str) and isinstance(y.right.value, str):
            return ast.copy_location(ast.Constant(value=y.left.value + y.right.value), y)     # 'matrix_' + 'sign'
        return y
    rec(node)


def _propagate_self_aliases(node):
    """`pulses = self.pulses` (assigned once, the attribute not stored in the function): the local is another
    name of the attribute - its loads are written as the attribute, so that rules keyed on `self.x.y` see them"""
    asg = {}
    stored_attrs = set()
    params = {a.arg for a in node.args.posonlyargs + node.args.args + node.args.kwonlyargs}
    for s in ast.walk(node):
        if isinstance(s, ast.Assign):
            for t in s.targets:
                for n in ast.walk(t):
                    if isinstance(n, ast.Name):
                        asg.setdefault(n.id, []).append(s if (len(s.targets) == 1 and t is n) else None)
        elif isinstance(s, (ast.AugAssign, ast.AnnAssign, ast.For, ast.With, ast.comprehension, ast.NamedExpr)):
            tg = getattr(s, 'target', None)
            for n in ast.walk(tg) if tg is not None else []:
                if isinstance(n, ast.Name):
                    asg.setdefault(n.id, []).append(None)
        if isinstance(s, ast.Attribute) and isinstance(s.ctx, (ast.Store, ast.Del)):
            stored_attrs.add(s.attr)
    alias = {}
    for nm, lst in asg.items():
        if nm in params or len(lst) != 1 or lst[0] is None:
            continue
        v = lst[0].value
        chain = []
        b = v
        while isinstance(b, ast.Attribute):
            chain.append(b.attr)
            b = b.value
        if isinstance(b, ast.Name) and b.id == 'self' and 1 <= len(chain) <= 2 and not (set(chain) & stored_attrs):
            alias[nm] = v
    if not alias:
        return

    def rec(x):
        for fld, val in ast.iter_fields(x):
            if isinstance(val, list):
                for i_, y in enumerate(val):
                    if isinstance(y, ast.AST):
                        val[i_] = fix(y)
            elif isinstance(val, ast.AST):
                setattr(x, fld, fix(val))

    def fix(y):
        if isinstance(y, ast.Name) and isinstance(y.ctx, ast.Load) and y.id in alias:
            new = _clone(alias[y.id])
            for z in ast.walk(new):
                ast.copy_location(z, y)
            return new
        rec(y)
        return y
    rec(node)


def flatten(ctx, func, depth=3):
    """synthetic Func: func with its private helpers inlined (cached on ctx)"""
    cache = ctx.__dict__.setdefault('_flat', {})
    if func.qual in cache:
        return cache[func.qual]
    fl = Flattener(ctx, func, depth)
    node = _clone(func.node)
    for x in ast.walk(node):
        for ch in ast.iter_child_nodes(x):
            ch._fparent = x
    fl.root = node
    doc = []
    body = node.body
    if body and isinstance(body[0], ast.Expr) and isinstance(body[0].value, ast.Constant) and isinstance(body[0].value.value, str):
        doc, body = body[:1], body[1:]
    node.body = doc + fl.block(body, [func.qual])
    _scalarise_tables(node)
    _sort_as_sorted(node)
    _accumulate_as_augassign(node)
    _chain_attr_alias(node)
    _inplace_attr_alias(node)
    _scalarise_objects(ctx, node, fl.counter)
    for _round in range(3):         # (records of records: a dict of dicts of arrays)
        before_ = ast.dump(node)
        _scalarise_tables(node)
        _scalarise_records(ctx, node)
        if ast.dump(node) == before_:
            break
    _propagate_self_aliases(node)
    _fold_const_getattr(node)
    _scalarise_append_lists(node)
    ast.fix_missing_locations(node)
    _set_parents(node)
    g = Func(func.module, func.cls, node, func.kind)
    g.inlined = sorted(set(fl.inlined))
    g.flat_of = func
    cache[func.qual] = g
    return g
