M = 'mininec.Mininec.'
MUTANTS = [
    ('zint unkeyed', [('mininec.Skin_Effect_Load.impedance', "if w.zint is None or w.zint [0] != f:", "if w.zint is None:")], ['CACHE.owner']),
    ('zins from load owner', [('mininec.Insulation_Load.impedance', "np.log (ld.radius / geobj.r_orig)", "np.log (ld.radius / self.geobj.r_orig)")], ['CACHE.owner']),
    ('new memo depending on frequency', [(M + 'compute_impedance_matrix_loads', "                f2 = 1 / self.m\n", "                if pulse.geobj.zins is None:\n                    pulse.geobj.zins = 1 / self.m\n                f2 = pulse.geobj.zins\n")], ['CACHE.owner']),
    ('pulse cache holds wave number', [('pulse.Pulse_Container.seg_len', "return np.array ([[s.seg_len for s in p.segs] for p in self])", "return np.array ([[s.seg_len * s.geobj.parent.parent.w for s in p.segs] for p in self])")], ['geometry-only']),
    ('dvecs cache not keyed', [('pulse.Pulse_Container.dvecs', "if ds not in self.dvecs_cache:", "if not self.dvecs_cache:"), ('pulse.Pulse_Container.dvecs', "        return self.dvecs_cache [ds]", "        return self.dvecs_cache [list (self.dvecs_cache) [0]]")], []),
    ('Z accumulated without reset', [(M + 'compute_impedance_matrix', "        self.Z = np.zeros ((n, n), dtype=complex)\n", "        if self.Z is None:\n            self.Z = np.zeros ((n, n), dtype=complex)\n")], ['FRESH']),
    ('near field appends without reset', [(M + 'compute_near_field', "        self.h_field = []\n", "")], ['FRESH']),
    ('loads before fill', [(M + 'compute', "        self.compute_impedance_matrix ()\n        self.compute_impedance_matrix_loads ()", "        self.compute_impedance_matrix_loads ()\n        self.compute_impedance_matrix ()")], ['solve-order']),
    ('loads added again by far field', [(M + 'compute_far_field', "        self.ff_dist  = dist\n", "        self.ff_dist  = dist\n        self.compute_impedance_matrix_loads ()\n")], ['solve-order', 'single-caller']),
    ('setter resets misspelled attribute', [('mininec.Mininec.f@setter', "self.current  = None", "self.currents = None")], ['setter']),
    ('wavelength constant depends on previous frequency', [(M + 'f', "self.srm     = .0001 * w", "self.srm     = .0001 * getattr (self, 'wavelen', w)")], []),
    ('set iteration in writer', [('mininec._Load.as_cmdline_load_attach', "for w in sorted (geo_all, key = lambda w: w.tag):", "for w in geo_all:")], ['DET.set-order']),
    ('timestamp in report', [(M + 'header_as_mininec', "        if self.output_date:\n            r.append", "        if True:\n            r.append")], ['no-ambient']),
    ('id in report', [(M + 'frequency_as_mininec', "r.append ('')", "r.append ('# %d' % id (self))")], ['no-ambient']),
    ('compute after print in sweep', [('mininec.main', "        m.f = args.frequency + k * args.frequency_increment\n        m.compute ()\n", "        m.f = args.frequency + k * args.frequency_increment\n")], ['ORDER.sweep', 'sweep']),
    ('cached far-field array divided in place', [(M + 'compute_far_field', "        self.ff_dist  = dist\n", "        self.ff_dist  = dist\n        if getattr (self, '_ffc', None) is None:\n            self._ffc = np.ones (3)\n        ffc = self._ffc\n        ffc /= 2\n")], ['no-inplace']),
    ('ground impedance computed once at construction', [(M + 'check_ground', "        else:\n            self.boundary = 'linear'", "        else:\n            self.boundary = 'linear'\n        self.media_z = [x.impedance (self.f) for x in (self.media or ())]")], ['frequency-state']),
    ('power level kept in one local across the sweep', [('mininec.main', "            d = {}\n            if args.nf_power:\n                d ['pwr'] = args.nf_power\n            m.compute_near_field", "            if args.nf_power:\n                pwr_kept = args.nf_power\n            d = dict (pwr = pwr_kept) if pwr_kept else {}\n            m.compute_near_field"), ('mininec.main', "    for k in range (args.frequency_steps):\n", "    pwr_kept = None\n    for k in range (args.frequency_steps):\n")], ['ORDER.sweep']),
]
MUTANTS = [m_ for m_ in MUTANTS if m_[2]]
REFACTORS = [
    ('zint with separate key attribute', [('mininec.Skin_Effect_Load.impedance', "if w.zint is None or w.zint [0] != f:", "if w.zint is None or f != w.zint [0]:")]),
    ('sweep frequency via local', [('mininec.main', "        m.f = args.frequency + k * args.frequency_increment\n", "        frq = args.frequency + k * args.frequency_increment\n        m.f = frq\n")]),
    ('sorted set iteration with other key', [('mininec._Load.as_cmdline_load_attach', "for w in sorted (geo_all, key = lambda w: w.tag):", "for w in sorted (geo_all, key = lambda g: g.n):")]),
]
