W = 'mininec.Wire.'
MUTANTS = [
    ('equal segments one short', [(W + 'compute_equal_segments', "for i in range (self.n_segments):", "for i in range (self.n_segments - 1):")], ['one-per-iteration']),
    ('equal segments appended twice', [(W + 'compute_equal_segments', "            s0 = s1\n", "            s0 = s1\n            self.segments.append (self.segments [-1])\n")], ['one-per-iteration']),
    ('equal segments do not chain', [(W + 'compute_equal_segments', "            s0 = s1\n", "            s0 = seg\n")], ['chain']),
    ('segments not reset', [(W + 'compute_segments', "        self.segments = []\n", "        if not hasattr (self, 'segments'):\n            self.segments = []\n")], ['FRESH']),
    ('arc without closing point', [('mininec.Arc.__init__', "        segends.append ([radius * np.cos (a2), 0.0, radius * np.sin (a2)])\n", "")], ['closing-point']),
    ('helix loop one short', [('mininec.Helix.__init__', "        for i in range (n_segments):\n            f  = i / n_segments", "        for i in range (n_segments - 1):\n            f  = i / n_segments")], ['one-per-iteration']),
    ('curve segments skip degenerate pairs', [('mininec.Curve.compute_segments', "        for e1, e2 in pairwise (self.segends):\n", "        for e1, e2 in pairwise (self.segends):\n            if (e1 == e2).all ():\n                continue\n")], ['one-per-iteration']),
    ('taper1 last pair not to p2', [('taper.taper1', "            yield (p, p2)\n        else:\n            assert min_t - eps <= np.linalg.norm (p + inc - p) <= mt + eps", "            yield (p, p + inc)\n        else:\n            assert min_t - eps <= np.linalg.norm (p + inc - p) <= mt + eps")], ['chain']),
    ('taper2 step differs from yielded end', [('taper.taper2', "            yield (p, p + inc)\n        p = p + inc", "            yield (p, p + inc)\n        p = p + inc1")], ['chain']),
    ('taper mirror not reversed', [('taper.taper1', "for x1, x2 in reversed (tp):", "for x1, x2 in tp:")], ['taper-mirror']),
    ('taper mirror not swapped', [('taper.taper1', "            yield (x2, x1)", "            yield (x1, x2)")], ['taper-mirror']),
    ('taper end off by one', [(W + 'compute_taper1_segments', "d = dict (end = self.segtype - 1)", "d = dict (end = self.segtype)")], ['taper-mirror']),
    ('rotate allowed after segmentation', [(W + 'rotate', "        assert not getattr (self, 'segments', None)\n", "")], ['not-segmented']),
]
MUTANTS += [
    ('arc point off the circle', [('mininec.Arc.__init__', "segends.append ([radius * np.cos (a), 0.0, radius * np.sin (a)])", "segends.append ([radius * np.cos (a), 0.0, radius * np.cos (a)])")], ['on-curve']),
    ('arc angle quadratic', [('mininec.Arc.__init__', "a = a1 + (a2 - a1) / n_segments * i", "a = a1 + (a2 - a1) / n_segments * i * i / n_segments")], ['on-curve', 'closing']),
    ('helix negative branch off the ellipse', [('mininec.Helix.__init__', "                x  = -xm * np.sin (a)\n                y  =  ym * np.cos (a)", "                x  = -xm * np.sin (a)\n                y  =  ym * np.sin (a)")], ['on-curve', 'closing']),
    ('helix closing point with start radius', [('mininec.Helix.__init__', "        x = rx2 * np.cos (a)\n        y = ry2 * np.sin (a)", "        x = rx1 * np.cos (a)\n        y = ry2 * np.sin (a)")], ['closing', 'on-curve']),
    ('helix closing point handedness', [('mininec.Helix.__init__', "        a = s * (abs (length) % abs (turnlen)) / abs (turnlen) * 2 * np.pi", "        a = (abs (length) % abs (turnlen)) / abs (turnlen) * 2 * np.pi")], ['closing']),
    ('transformations applied unsorted', [('mininec.main', "for t in sorted (geo_transforms, key = lambda x: x [0]):", "for t in geo_transforms:")], ['ORDER.main']),
    ('transformations sorted by the tag', [('mininec.main', "for t in sorted (geo_transforms, key = lambda x: x [0]):", "for t in sorted (geo_transforms, key = lambda x: x [3] or 0):")], ['ORDER.main']),
    ('rotation assembled in a loop on one scratch matrix', [('mininec.Rotation_Matrix.__init__', "        self.m = rot_z @ rot_y @ rot_x", "        rot = np.eye (3)\n        self.m = np.eye (3)\n        for k, r in enumerate ((rot_x, rot_y, rot_z)):\n            i = (k + 1) % 3\n            rot [i] = r [i]\n            self.m = rot @ self.m")], ['loop-scratch']),
    ('arc angles from a float-stepped range', [('mininec.Arc.__init__', "        for i in range (n_segments):\n            a = a1 + (a2 - a1) / n_segments * i\n", "        for a in np.arange (a1, a2, (a2 - a1) / n_segments):\n")], ['count-based']),
]
REFACTORS = [
    ('equal segments loop variable renamed', [(W + 'compute_equal_segments', "        for i in range (self.n_segments):\n            s1 = seg + (i + 1) * dirvec * seg_len", "        for k in range (self.n_segments):\n            s1 = seg + (k + 1) * dirvec * seg_len")]),
    ('rotation assembled in a loop, fresh matrix per axis', [('mininec.Rotation_Matrix.__init__', "        self.m = rot_z @ rot_y @ rot_x", "        self.m = np.eye (3)\n        for r in (rot_x, rot_y, rot_z):\n            rot = np.eye (3)\n            for i in range (3):\n                rot [i] = r [i]\n            self.m = rot @ self.m")]),
]
