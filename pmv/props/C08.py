"""C08  Loads act as the series circuit elements they describe.

Decided:
 D1 R-EXH   compute_impedance_matrix_loads: for every load and every attached pulse exactly one
            `+=` on the diagonal element Z[j][j] with j = pulse.idx (several loads add up).
 D2 R-SIB   weight of a load impedance on the diagonal == weight of a source voltage in the
            right-hand side (-1j/m, doubled for a grounded pulse) => a series load adds exactly
            Z_L to the feed impedance, also on a grounded wire end.
 D3         interface conformance of every concrete load class (impedance / as_cmdline /
            as_basic_input / as_mininec resolve and accept the call shapes used).
 D4 R-POLY  RLC and trap coefficient lists, evaluated symbolically from the source, equal the
            rational function of the circuit they describe; Laplace_Load.impedance is
            sum(b_j s^j) / sum(a_j s^j) with s = j*2*pi*f*1e6; conductivity = 1/resistivity is
            the only derivation and the impedance reads the conductivity only.
 D5 R-EXH   register_load: attach-to-all iterates every pulse of the object(s) once; a load is
            numbered and listed once.
 (R-CACHE of the per-object caches is decided under C14/C06 and re-checked here for zint.)
Not decided: Bessel asymptote, closed-form wire impedance values (numeric).
"""
import ast
import re
from ..model import AnalysisError, walk_no_nested, norm, dotted, parent, const_value, is_const
from ..dataflow import product_of, sum_terms
from ..rules import loops_in, loop_reaches_on_all_paths, assigns_to_attr, calls_in
from ..cfg import if_chain_preds

LOADS = 'mininec.Mininec.compute_impedance_matrix_loads'
RHS = 'mininec.Mininec.compute_rhs'
CONCRETE = ['Impedance_Load', 'Laplace_Load', 'Series_RLC_Load', 'Trap_Load', 'Skin_Effect_Load',
            'Insulation_Load']


# ------------------------------------------------------------------ weights
def weight_alternatives(fl, expr, at, depth=0):
    """possible (coef, num texts, den texts, guards) of a product expression whose local factors
    may have several reaching definitions (f2 = a ; if g: f2 *= 2 / f2 = b)"""
    pr = product_of(expr)
    alts = [(pr.coef, [], [], ())]
    for which, facs in (('num', pr.num), ('den', pr.den)):
        for t, x in facs:
            if isinstance(x, ast.Name) and x.id in fl.rd.names and depth < 4:
                subs = []
                for d in fl.def_exprs(x.id, at):
                    if d[0] == 'assign' and any(isinstance(y, ast.Name) and y.id == x.id for y in ast.walk(d[1])):
                        # factor = factor * 2 : an update written as plain assignment
                        g = tuple(if_chain_preds(fl.cfg, d[2]))
                        for a in weight_alternatives(fl, d[1], d[2], depth + 1):
                            subs.append((a[0], a[1], a[2], a[3] + g))
                    elif d[0] == 'assign':
                        g = tuple(if_chain_preds(fl.cfg, d[2]))
                        for a in weight_alternatives(fl, d[1], d[2], depth + 1):
                            subs.append((a[0], a[1], a[2], a[3] + g))
                    elif d[0] == 'aug':
                        st = d[1]
                        g = tuple(if_chain_preds(fl.cfg, d[2]))
                        prev = weight_alternatives(fl, ast.Name(id=x.id, ctx=ast.Load()), d[2], depth + 1)
                        fac = weight_alternatives(fl, st.value, d[2], depth + 1)
                        for a in prev:
                            for b in fac:
                                if isinstance(st.op, ast.Mult):
                                    subs.append((a[0] * b[0], a[1] + b[1], a[2] + b[2], a[3] + b[3] + g))
                                elif isinstance(st.op, ast.Div):
                                    subs.append((a[0] / b[0], a[1] + b[2], a[2] + b[1], a[3] + b[3] + g))
                    elif d[0] == 'param':
                        subs.append((1, [x.id], [], ()))
                if not subs:
                    subs = [(1, [t], [], ())]
                new = []
                for a in alts:
                    for s in subs:
                        if which == 'num':
                            new.append((a[0] * s[0], a[1] + s[1], a[2] + s[2], a[3] + s[3]))
                        else:
                            new.append((a[0] / s[0], a[1] + s[2], a[2] + s[1], a[3] + s[3]))
                alts = new
            else:
                alts = [(a[0], a[1] + [t], a[2], a[3]) if which == 'num' else
                        (a[0], a[1], a[2] + [t], a[3]) for a in alts]
    # dedupe
    out = []
    for a in alts:
        k = (complex(a[0]), sorted(a[1]), sorted(a[2]), tuple(a[3]))
        if k not in out:
            out.append(k)
    return out


def split_weight(alts, payload_pred):
    """separate the payload factor (voltage / impedance call) from the weight"""
    res = []
    for coef, num, den, guards in alts:
        pay = [t for t in num if payload_pred(t)]
        rest = tuple(t for t in num if not payload_pred(t))
        res.append((coef, rest, tuple(den), guards, tuple(pay)))
    return res


from ..poly import Poly, poly_of, coef_list, ratio_equal


def super_init_args(func, model):
    """{param name of the base __init__: arg expr} for the super().__init__ call in func"""
    for c in walk_no_nested(func.node):
        if isinstance(c, ast.Call) and isinstance(c.func, ast.Attribute) and c.func.attr == '__init__' \
           and isinstance(c.func.value, ast.Call) and isinstance(c.func.value.func, ast.Name) \
           and c.func.value.func.id == 'super':
            base = model.resolve_method(func.cls.name, '__init__', after=func.cls.name)
            params = base.params[1:]
            m = {}
            for i, a in enumerate(c.args):
                m[params[i]] = a
            for k in c.keywords:
                m[k.arg] = k.value
            return c, m
    return None, {}


def find_diag_store(ctx):
    """the statement that stores into self.Z in compute_impedance_matrix_loads (any form)"""
    m = ctx.model
    f = m.func(LOADS)
    fl = ctx.flow(f)
    stores = []
    for n in fl.cfg.nodes:
        s_ = n.stmt
        if n.kind == 'stmt' and isinstance(s_, (ast.AugAssign, ast.Assign)):
            t = s_.target if isinstance(s_, ast.AugAssign) else s_.targets[0]
            idx = []
            while isinstance(t, ast.Subscript):
                idx = ([norm(x) for x in t.slice.elts] if isinstance(t.slice, ast.Tuple) else [norm(t.slice)]) + idx
                t = t.value
            if dotted(t) == 'self.Z' and idx:
                stores.append((n, idx))
    if len(stores) != 1:
        raise AnalysisError('compute_impedance_matrix_loads: expected one store into self.Z, found %d' % len(stores))
    store, idx = stores[0]
    st = store.stmt
    jn = idx[0]
    jd = fl.single_def(jn, store.id) if jn.isidentifier() else None
    return f, fl, store, st, jd, idx


def check_weights(ctx, ck):
    """R-SIB.weight on the symbolic weights model (_weights.py)"""
    from ._weights import rhs_model, load_model, doubled, grounded, carried_weight_names, RHS as RHS_Q, LOADS as LOADS_Q
    from ..poly import cancel, Poly
    m = ctx.model
    f, lents, lpaths = load_model(ctx)
    g, rents, rfinals, rpaths = rhs_model(ctx)
    if not lents:
        raise AnalysisError('compute_impedance_matrix_loads: no store into self.Z found on the symbolic paths')
    if not rents:
        raise AnalysisError('compute_rhs: no element store found on the symbolic paths')
    # the weight is recomputed for every element: it cannot carry the doubling of a previous
    # (grounded) element over to the next one
    for who, q_, fn_ in (('load', LOADS_Q, f), ('source', RHS_Q, g)):
        bad_ = carried_weight_names(ctx, q_)
        ck.ob('R-SIB.weight', 'weight-per-element|%s' % who, not bad_, bad_[0][0].loc(bad_[0][2]) if bad_ else fn_.loc(),
              'the %s weight is initialised inside the loop over the elements' % who if not bad_ else
              'weight factor %s is initialised outside the loop: the doubling for a grounded pulse leaks '
              'into the following elements' % sorted({b[1] for b in bad_}))
    probs = sorted({p_ for e_ in lents + rents for p_ in e_.problems})

    def classes(ents):
        base = {repr(e_.weight) for e_ in ents if e_.weight is not None and not doubled(e_.conds)}
        dbl = {repr(e_.weight) for e_ in ents if e_.weight is not None and doubled(e_.conds)}
        return base, dbl
    lb, ld = classes(lents)
    rb, rd = classes(rents)
    where = f.loc(lents[0].stmt)
    ok = not probs and len(lb) == 1 and len(rb) == 1 and len(ld) == 1 and len(rd) == 1
    if not ok:
        ck.ob('R-SIB.weight', 'base-weight', False, where,
              'load weights %s / doubled %s ; source weights %s / doubled %s %s' % (sorted(lb), sorted(ld), sorted(rb), sorted(rd), probs[:2]))
    else:
        ck.ob('R-SIB.weight', 'base-weight', lb == rb, where,
              'load weight %s vs source weight %s' % (sorted(lb)[0], sorted(rb)[0]))
        wl = [e_.weight for e_ in lents if e_.weight is not None]
        bl = [e_.weight for e_ in lents if e_.weight is not None and not doubled(e_.conds)][0]
        dl_ = [e_.weight for e_ in lents if e_.weight is not None and doubled(e_.conds)][0]
        br = [e_.weight for e_ in rents if e_.weight is not None and not doubled(e_.conds)][0]
        dr_ = [e_.weight for e_ in rents if e_.weight is not None and doubled(e_.conds)][0]
        two = Poly.const(2)
        okf = cancel(dl_ - bl * two).t == {} and cancel(dr_ - br * two).t == {}
        ck.ob('R-SIB.weight', 'grounded-factor', okf, where,
              'grounded pulse: load %r vs %r, source %r vs %r (factor 2 each)' % (dl_, bl, dr_, br))
        # guards: "any half of the pulse is grounded" on the loaded / excited pulse
        gl = sorted({(pt, t_) for e_ in lents if doubled(e_.conds) for pt, b_, t_ in grounded(e_.conds) if b_})
        gr = sorted({(pt, t_) for e_ in rents if doubled(e_.conds) for pt, b_, t_ in grounded(e_.conds) if b_})
        okg = len({pt for pt, t_ in gl}) == 1 and len({pt for pt, t_ in gr}) == 1
        # apart from the ground test only `self.media is not None` may take part in the guard
        for pt, t_ in gl + gr:
            rest = [x_.strip() for x_ in t_.split(' and ') if not x_.strip().endswith('.ground.any()')]
            okg = okg and all(x_ in ('self.media is not None',) for x_ in rest)
        ck.ob('R-SIB.weight', 'grounded-guard', okg, where,
              'doubling guards: load `%s`, source `%s`' % ([t_ for pt, t_ in gl], [t_ for pt, t_ in gr]))
        if okg:
            import re as _re
            lp = gl[0][0]
            rp = gr[0][0]
            e0 = [e_ for e_ in lents if doubled(e_.conds)][0]
            pulse_txt = norm(e0.payload.args[1]) if e0.payload is not None and len(e0.payload.args) > 1 else '?'
            r0 = [e_ for e_ in rents if doubled(e_.conds)][0]
            K_ = lambda t_: _re.sub(r'_[km]\d+', '_k', t_)      # (loop elements: the same loop, whatever its number)
            okp = K_(lp) == K_(pulse_txt) and K_(rp) == K_('self.pulses[%s.idx]' % r0.source)
            ck.ob('R-SIB.weight', 'grounded-guard-pulse', okp, where,
                  'load guard tests %s (loaded pulse %s); source guard tests %s (source %s)' % (lp, pulse_txt, rp, r0.source))
    # the payload is <load>.impedance(self.f, <pulse of that load>)
    ok = True
    seen = set()
    for e_ in lents:
        pl = e_.payload
        if pl is None:
            ok = False
            continue
        recv = norm(pl.func.value)
        args = [norm(a_) for a_ in pl.args]
        seen.add('%s.impedance(%s)' % (recv, ', '.join(args)))
        import re as _re
        ok = ok and len(args) == 2 and args[0] == 'self.f' and _re.match(r'^self\.loads\[_k\d+\]$', recv) is not None \
            and _re.match(r'^%s\.pulses\[_k\d+\]$' % _re.escape(recv), args[1]) is not None
    ck.ob('R-SIB.weight', 'payload', ok, where, 'adds %s' % sorted(seen)[:1])


def check_add_pulse(ctx, ck, rule='R-EXH.attach'):
    """_Load.add_pulse attaches the pulse it is given: one append of that pulse, on every path - or skipped only when
    this very pulse is attached already (a membership test on the pulse itself or its global index `idx`).  A test
    keyed by anything else (`pulse.n`, the row inside its object) makes pulses of different objects look the same
    and silently drops attachments.  Shared with C17."""
    from ..cfg import must_atoms
    m = ctx.model
    ap = m.func('mininec._Load.add_pulse')
    pname = ap.params[1] if len(ap.params) > 1 else 'pulse'
    fl = ctx.flow(ap)
    apps = [c for c in walk_no_nested(ap.node) if isinstance(c, ast.Call) and isinstance(c.func, ast.Attribute)
            and c.func.attr == 'append' and norm(c.func.value) == 'self.pulses' and len(c.args) == 1]
    if len(apps) != 1 or norm(apps[0].args[0]) != pname:
        ck.ob(rule, ap.qual, False, ap.loc(), 'add_pulse appends the pulse once: %d appends to self.pulses' % len(apps))
        return
    bad = None
    for t_, b_ in must_atoms(fl.cfg, fl.node_id_of(apps[0])):
        if not isinstance(t_, str):
            continue
        mo = re.match(r'^(.+) (not in|in) (.+)$', t_)
        if mo and (pname in mo.group(1)):
            key = mo.group(1).strip()
            if key not in (pname, '%s.idx' % pname, 'id(%s)' % pname):
                bad = bad or ('the pulse is skipped when `%s` is already known: `%s` is not the identity of the pulse '
                              '(pulses of different objects share it), attachments are silently dropped' % (key, key))
        elif pname in t_:
            raise AnalysisError('%s: the pulse is attached under a test that is not understood: %s' % (ap.qual, t_))
    ck.ob(rule, ap.qual, bad is None, ap.loc(apps[0]), bad or 'add_pulse appends the pulse once')


def check_option_parameter(ctx, ck, rule='R-KIND.option-parameter'):
    """In main, a loop over `args.<family>_<p>` (a registered option) that calls a package constructor / function
    having a parameter <p> AND a parameter <q> for which a sibling option `<family>_<q>` exists must hand its value
    to <p>: a positional slip (`Skin_Effect_Load(w, res)` in the resistivity loop) puts the number into <q>."""
    from ..cli import registered_options
    m = ctx.model
    mainf = ctx.flat('mininec.main')
    dests = {o.dest for o in registered_options(m.func('mininec.main')).values()} | \
            {o.dest for o in registered_options(mainf).values()}
    n = 0
    scan = [mainf] + [g_ for g_ in m.all_funcs() if g_.cls is None and g_.module is m.func('mininec.main').module
                      and g_.qual != 'mininec.main']
    # (the options may be registered in a parser factory; what is looped over as `args.<name>` is an option as well)
    for g_ in scan:
        dests |= {o.dest for o in registered_options(g_).values()}
        dests |= {x.iter.attr for x in ast.walk(g_.node) if isinstance(x, ast.For) and isinstance(x.iter, ast.Attribute)
                  and isinstance(x.iter.value, ast.Name) and x.iter.value.id == 'args'}
    for mainf, l in [(g_, x) for g_ in scan for x in ast.walk(g_.node) if isinstance(x, ast.For)]:
        it = l.iter
        d = None
        if isinstance(it, ast.Attribute) and isinstance(it.value, ast.Name) and it.attr in dests:
            d = it.attr
        elif isinstance(it, ast.Call) and isinstance(it.func, ast.Name) and it.func.id == 'getattr' and len(it.args) >= 2 \
                and isinstance(it.args[1], ast.Constant):
            d = it.args[1].value
        elif isinstance(it, ast.BoolOp) and isinstance(it.values[0], ast.Attribute) and norm(it.values[0].value) == 'args':
            d = it.values[0].attr
        if d is None or d not in dests:
            continue
        for c in [x for b in l.body for x in ast.walk(b) if isinstance(x, ast.Call)]:
            nm = dotted(c.func)
            ci = m.classes.get(nm.split('.')[-1]) if nm else None
            g = m.resolve_method(ci.name, '__init__') if ci is not None else None
            if g is None:
                continue
            params = list(g.all_params)[1:]
            ps = [p_ for p_ in params if d == p_ or d.endswith('_' + p_)]
            if len(ps) != 1:
                continue
            p_ = ps[0]
            fam = d[:len(d) - len(p_)]
            sib = [q_ for q_ in params if q_ != p_ and fam + q_ in dests]
            if not sib:
                continue
            # (`**kw` handed on / a bundle of keywords: what it holds is not judged, what is written out is)
            open_ = any(isinstance(a_, ast.Starred) for a_ in c.args) or any(k_.arg is None for k_ in c.keywords)
            pos = [x.arg for x in g.node.args.posonlyargs + g.node.args.args][1:]
            given = {}
            for i_, a_ in enumerate(c.args):
                if isinstance(a_, ast.Starred):
                    break
                if i_ < len(pos):
                    given[pos[i_]] = a_
            for k_ in c.keywords:
                if k_.arg is not None:
                    given[k_.arg] = k_.value

            def is_none(e):
                return e is None or (isinstance(e, ast.Constant) and e.value is None)
            wrong = [q_ for q_ in sib if not is_none(given.get(q_))]
            ok = (open_ or not is_none(given.get(p_))) and not wrong
            n += 1
            ck.ob(rule, '%s|for args.%s|%s' % (nm, d, norm(c)[:50]), ok, mainf.loc(c),
                  'the value of --%s goes to the parameter `%s`' % (d.replace('_', '-'), p_) if ok else
                  'in the loop over --%s the call %s gives %s: the number is taken as the wrong quantity' % (
                      d.replace('_', '-'), norm(c)[:60],
                      ('a value to `%s`' % wrong[0]) if wrong else ('no value to `%s`' % p_)))
    return n


def run(ctx, ck):
    prog = ctx.program
    m = ctx.model
    ck.rule('R-EXH.diagonal', 'each (load, pulse) adds once to Z[j][j], j = pulse.idx')
    ck.rule('R-SIB.weight', 'load weight on the diagonal == source weight in the rhs (incl. doubling)')
    ck.rule('R-IFACE.load', 'concrete load classes implement the 4 methods with the used call shapes')
    ck.rule('R-POLY.circuit', 'coefficient lists equal the circuit impedance as rational functions')
    ck.rule('R-DEP.skin', 'conductivity = 1/resistivity only; impedance reads conductivity')
    ck.rule('R-EXH.attach', 'attach-to-all touches each pulse once; load registered once')

    # ---------------------------------------------------------------- D1
    # on the symbolic walk: every path through one (load, pulse) element stores exactly once into
    # self.Z, on the diagonal element of the loaded pulse, accumulating
    from ._weights import load_model
    import re as _re
    f, lents, lpaths = load_model(ctx)
    ck.floor('stores into self.Z on the symbolic paths', len(lents), 1)
    e0 = lents[0]
    is_acc = all(e_.accumulates for e_ in lents)
    ck.ob('R-EXH.diagonal', LOADS + '|accumulates', is_acc, f.loc(e0.stmt),
          'loads are added to the matrix element (several loads on a pulse add up)' if is_acc else
          'the load term is stored with `%s`, not accumulated' % norm([e_ for e_ in lents if not e_.accumulates][0].value)[:70])
    diag = all(len(e_.index) == 2 and e_.index[0] == e_.index[1] for e_ in lents)
    ck.ob('R-EXH.diagonal', LOADS + '|diagonal-element', diag, f.loc(e0.stmt),
          'element Z[%s] is on the diagonal' % ', '.join(e0.index) if diag else
          'element Z[%s] is not a diagonal element' % ', '.join([e_ for e_ in lents if len(e_.index) != 2 or e_.index[0] != e_.index[1]][0].index))
    # iteration: every pulse of every load
    its = set()
    for p_ in lpaths:
        its.add(tuple(_re.sub(r'_k\d+', '_k', t_) for k_, t_ in p_.conds if k_ == 'loop'))
    flat = {x_ for it_ in its for x_ in it_}
    full = ('self.loads' in flat and 'self.loads[_k].pulses' in flat) or any(
        'self.loads' in x_ and '.pulses' in x_ and '_each' in x_ for x_ in flat)
    ck.ob('R-EXH.diagonal', LOADS + '|loops', full, f.loc(),
          'for every load, for every pulse of the load' if full else 'iterates %s, not all pulses of all loads' % sorted(flat))
    counts = set()
    for p_ in lpaths:
        ent = [t_ for k_, t_ in p_.conds if k_ == 'loop']
        skp = [t_ for k_, t_ in p_.conds if k_ == 'loop-skipped']
        n_ = sum(1 for ev in p_.events if ev[0] == 'store' and ev[1].startswith('self.Z['))
        inner_entered = len(ent) >= 2 or any('_each' in t_ for t_ in ent)
        if any('_each(' in t_ for t_ in skp) and ent:
            continue        # a generated sequence both produced (its loops entered) and empty: not a real path
        if inner_entered:
            counts.add(n_)
    ck.ob('R-EXH.diagonal', LOADS + '|one-add-per-pulse', counts == {1}, f.loc(),
          'matrix updates per (load, pulse) on the paths through one element: %s' % sorted(counts))
    okj = all(_re.match(r'^self\.loads\[_k\d+\]\.pulses\[_k\d+\]\.idx$', e_.index[0] or '') for e_ in lents if e_.index)
    ck.ob('R-EXH.diagonal', LOADS + '|index=pulse.idx', okj, f.loc(e0.stmt), 'diagonal index = %s' % (e0.index[0] if e0.index else '?'))

    check_weights(ctx, ck)

    # ---------------------------------------------------------------- D3
    shapes = {'impedance': (2, []), 'as_cmdline': (1, ['by_geo']), 'as_basic_input': (2, []),
              'as_mininec': (1, [])}
    n_if = 0
    for cname in CONCRETE:
        m.cls(cname)
        for meth, (npos, kws) in shapes.items():
            g = m.resolve_method(cname, meth)
            ok = g is not None
            why = 'not implemented'
            if ok:
                params = g.params[1:]
                a = g.node.args
                nreq = len(params) - len(a.defaults)
                ok = nreq <= npos <= len(params) or (a.vararg is not None and nreq <= npos)
                ok = ok and all(k in g.all_params or a.kwarg for k in kws)
                why = '%s(%s) accepts %d positional %s' % (g.qual, ', '.join(params), npos, kws)
            ck.ob('R-IFACE.load', '%s.%s' % (cname, meth), ok, g.loc() if g else m.cls(cname).module.relpath(), why)
            n_if += 1
    ck.floor('interface obligations', n_if, 24)

    # ---------------------------------------------------------------- D4
    lap = m.func('mininec.Laplace_Load.__init__')
    # a / b stored as given (zero padded)
    # (the closed end-of-constructor values: zeros of the common length with the coefficients written at the front)
    from ..symx import SymExec, loop_transformer, copy_replace
    lpaths = [p_ for p_ in SymExec(ctx, lap, depth=2, effects=True).run() if p_.end != 'raise']
    if not lpaths:
        raise AnalysisError('Laplace_Load.__init__: no symbolic path')
    ok = True
    got = set()
    for p_ in lpaths:
        for nm_ in ('a', 'b'):
            v_ = norm(p_.env['self.' + nm_]) if 'self.' + nm_ in p_.env else None
            got.add('self.%s = %s' % (nm_, v_))
            ok = ok and v_ in ('_upd(np.zeros(max(len(a), len(b))), :len(%s), %s)' % (nm_, nm_),
                               '_upd(np.zeros(max(len(b), len(a))), :len(%s), %s)' % (nm_, nm_))
    ck.ob('R-POLY.circuit', 'Laplace_Load.__init__|stores a,b', ok, lap.loc(),
          'denominator a and numerator b stored zero-padded to their common length' if ok else
          'denominator a and numerator b are not stored zero-padded to their common length: %s' % sorted(got))
    from ..poly import poly_roles, roles_of_text, cancel
    imp = ctx.flat('mininec.Laplace_Load.impedance')       # (the evaluation loop may live in a private helper)
    # the evaluation loop as a state transformer: N' = N + b[j]*M, D' = D + a[j]*M, M' = M*s with
    # N = D = 0, M = 1 initially and s = j*2*pi*f*1e6; the result is N / D   (Horner-free power sum)
    ok, why = False, 'unexpected shape'
    lps = [l for l in imp.body() if isinstance(l, (ast.For, ast.While))]
    if len(lps) == 1 and isinstance(lps[0], ast.For):
        lp = lps[0]
        pre, carried, bpaths, post = loop_transformer(ctx, imp, lp)
        bpaths = [p_ for p_ in bpaths if p_.end is None]
        post = [p_ for p_ in post if p_.end == 'return']
        # the j-th coefficients: by index (for j in range(len(self.a)): self.a[j]) or as the elements of
        # zip(self.b, self.a) - both lists have the same length (zero padded by the constructor)
        it_txt = norm(lp.iter)
        tnames = [n_.id for n_ in ast.walk(lp.target) if isinstance(n_, ast.Name)]
        elem = {}
        IDX = None
        if isinstance(lp.target, ast.Name) and it_txt in ('range(len(self.a))', 'range(len(self.b))', 'range(self.degree + 1)'):
            IDX = lp.target.id
        elif it_txt in ('zip(self.b, self.a)', 'zip(self.a, self.b)') or \
                _re.match(r'^enumerate\(zip\(self\.[ab], self\.[ab]\)\)$', it_txt):
            from ..symx import Path
            sx_ = SymExec(ctx, imp, bind_loops=True)
            probe = Path({}, ())
            sx_._bind_loop(lp.target, lp.iter, probe)
            elem = {k_: v_ for k_, v_ in probe.env.items() if k_ in tnames}
            ks_ = sorted({n_.id for v_ in elem.values() for n_ in ast.walk(v_) if isinstance(n_, ast.Name) and n_.id.startswith('_k')})
            IDX = ks_[0] if len(ks_) == 1 else None
        if len(bpaths) == 1 and len(post) == 1 and IDX is not None and isinstance(post[0].ret, ast.BinOp) and \
           isinstance(post[0].ret.op, ast.Div) and isinstance(post[0].ret.left, ast.Name) and \
           isinstance(post[0].ret.right, ast.Name):
            N, D = post[0].ret.left.id, post[0].ret.right.id
            env1 = {k_: copy_replace(v_, lambda n_: elem.get(n_.id) if isinstance(n_, ast.Name) else None)
                    for k_, v_ in bpaths[0].env.items()}

            def P(e_):
                return cancel(poly_roles(e_, {}))
            try:
                Bj = P(ast.parse('self.b[%s]' % IDX, mode='eval').body)
                Aj = P(ast.parse('self.a[%s]' % IDX, mode='eval').body)
                dN = cancel(P(env1[N]) - Poly.var(N))
                dD = cancel(P(env1[D]) - Poly.var(D))
                cand = [v_ for v_ in carried - {N, D} - set(tnames) if v_ in env1]
                M = [v_ for v_ in cand if cancel(dN - Bj * Poly.var(v_)).t == {}]
                ok = len(M) == 1 and cancel(dD - Aj * Poly.var(M[0])).t == {}
                why = 'numerator step %r, denominator step %r' % (dN, dD)
                if ok:
                    step = cancel(P(env1[M[0]]) - Poly.var(M[0]) * roles_of_text('1j * 2 * pi * f * 1e6'))
                    zero = lambda e_: cancel(P(e_)).t == {}
                    one = cancel(P(pre[M[0]]) - Poly.const(1)).t == {} if M[0] in pre else False
                    ok = step.t == {} and one and N in pre and D in pre and zero(pre[N]) and zero(pre[D])
                    why = ('N += b[j] * M, D += a[j] * M, M *= j 2 pi f 1e6, start 0, 0, 1' if ok else
                           'power step residue %r, initial values %s / %s / %s' % (
                               step, norm(pre.get(N)) if pre.get(N) is not None else None,
                               norm(pre.get(D)) if pre.get(D) is not None else None,
                               norm(pre.get(M[0])) if pre.get(M[0]) is not None else None))
            except (ValueError, KeyError) as e_:
                ok, why = False, 'not understood: %s' % e_
    ck.ob('R-POLY.circuit', 'Laplace_Load.impedance|sum b s^j / sum a s^j', ok, imp.loc(), why)

    # Series RLC / trap: coefficient lists handed to Laplace_Load.__init__ on every constructor path
    R, L, C = Poly.var('R'), Poly.var('L'), Poly.var('C')
    env = {'self.r': R, 'self.l': L, 'self.c': C, 'R': R, 'L': L, 'C': C}
    base_params = m.func('mininec.Laplace_Load.__init__').params[1:]

    def or_zero(e_):
        # `X or 0`: a missing element counts as zero
        def fn(n_):
            if isinstance(n_, ast.BoolOp) and isinstance(n_.op, ast.Or) and len(n_.values) == 2 and \
               isinstance(n_.values[1], ast.Constant) and n_.values[1].value == 0:
                return copy_replace(n_.values[0], fn)
            return None
        return copy_replace(e_, fn)

    def super_calls(func):
        """[(path, {base param: substituted arg})] for the super().__init__ call on each path"""
        out = []
        for p_ in SymExec(ctx, func).run():
            if p_.end == 'raise':
                continue
            hits = [(c_, st_) for c_, st_ in p_.calls if isinstance(c_.func, ast.Attribute) and c_.func.attr == '__init__'
                    and isinstance(c_.func.value, ast.Call) and norm(c_.func.value.func) == 'super']
            if len(hits) != 1:
                out.append((p_, None, None))
                continue
            c_, st_ = hits[0]
            amap = {}
            for i_, a_ in enumerate(c_.args):
                amap[base_params[i_]] = a_
            for k_ in c_.keywords:
                amap[k_.arg] = k_.value
            out.append((p_, amap, st_))
        return out
    rlc = m.func('mininec.Series_RLC_Load.__init__')
    n_alt = 0
    seen_alt = set()
    for p_, amap, st_ in super_calls(rlc):
        cvals = [b_ for t_, b_ in p_.conds if t_ == 'C' and isinstance(b_, bool)]
        if amap is None or 'a' not in amap or 'b' not in amap or len(cvals) != 1:
            ck.ob('R-POLY.circuit', 'Series_RLC_Load|path %s' % (p_.conds,), False, rlc.loc(),
                  'constructor path without a recognisable super().__init__(a, b) / test of C')
            continue
        with_c = cvals[0]
        try:
            a = coef_list(or_zero(amap['a']), env)
            b = coef_list(or_zero(amap['b']), env)
        except ValueError as e:
            ck.ob('R-POLY.circuit', 'Series_RLC_Load|%s' % ('with C' if with_c else 'without C'), False, rlc.loc(), str(e))
            continue
        if with_c:
            # R + sL + 1/(sC) = (1 + sRC + s^2 LC) / (sC)
            num = [Poly.const(1), R * C, L * C]
            den = [Poly(), C]
        else:
            num = [R, L]
            den = [Poly.const(1)]
        ok = ratio_equal(b, a, num, den)
        if with_c not in seen_alt:
            n_alt += 1
        seen_alt.add(with_c)
        ck.ob('R-POLY.circuit', 'Series_RLC_Load|%s' % ('with C' if with_c else 'without C'), ok,
              rlc.loc(st_), 'b=%s a=%s %s R + sL%s' % (b, a, '==' if ok else '!=', ' + 1/(sC)' if with_c else ''))
    ck.floor('Series_RLC coefficient alternatives', n_alt, 2)
    # Trap
    trap = m.func('mininec.Trap_Load.__init__')
    tc = [x for x in super_calls(trap)]
    ok, why = bool(tc), 'super().__init__(a=..., b=...) not found'
    st_ = None
    for p_, amap, st_ in tc:
        if amap is None or 'a' not in amap or 'b' not in amap:
            ok, why = False, 'super().__init__(a=..., b=...) not found on the path %s' % (p_.conds,)
            break
        try:
            a = coef_list(or_zero(amap['a']), env)
            b = coef_list(or_zero(amap['b']), env)
            ok1 = ratio_equal(b, a, [R, L], [Poly.const(1), R * C, L * C])
            why = 'b=%s a=%s %s (R+sL) || 1/(sC)' % (b, a, '==' if ok1 else '!=')
            ok = ok and ok1
        except ValueError as e:
            ok, why = False, str(e)
        if not ok:
            break
    ck.ob('R-POLY.circuit', 'Trap_Load', ok, trap.loc(st_), why)
    # Impedance load: constant
    il = m.func('mininec.Impedance_Load.__init__')
    ok = any(norm(s) == 'self._impedance = impedance' for s in il.body())
    base_imp = m.func('mininec._Load.impedance')
    rr = [n for n in walk_no_nested(base_imp.node) if isinstance(n, ast.Return)]
    ok = ok and len(rr) == 1 and norm(rr[0].value) == 'self._impedance'
    ck.ob('R-POLY.circuit', 'Impedance_Load', ok, il.loc(), 'impedance(f) returns the constructor value')

    # skin effect: conductivity as stored at the end of every constructor path
    se = m.func('mininec.Skin_Effect_Load.__init__')
    finals = []
    for p_ in SymExec(ctx, se).run():
        if p_.end == 'raise':
            continue
        last = [v_ for k_, v_, st_ in p_.stores if k_ == 'self.conductivity']
        given = [b_ for t_, b_ in p_.conds if t_ == 'conductivity is None' and isinstance(b_, bool)]
        finals.append((given[-1] if given else None, norm(last[-1]) if last else None))
    want = {(True, '1 / resistivity'), (False, 'conductivity')}
    ok = bool(finals) and set(finals) <= want | {(None, 'conductivity')} and (True, '1 / resistivity') in set(finals)
    ck.ob('R-DEP.skin', se.qual + '|1/resistivity', ok, se.loc(),
          'self.conductivity at the end of the constructor paths (conductivity missing?, value): %s' % sorted(set(finals), key=str))
    si = m.func('mininec.Skin_Effect_Load.impedance')
    from ..rules import self_closure
    reads = set()
    for g_ in self_closure(ctx, si):
        for n_ in walk_no_nested(g_.node):
            if isinstance(n_, ast.Attribute) and n_.attr in ('conductivity', 'resistivity'):
                reads.add(n_.attr)
    ck.ob('R-DEP.skin', si.qual + '|reads', reads == {'conductivity'}, si.loc(),
          'impedance (with its helpers) reads %s' % sorted(reads))

    # ---------------------------------------------------------------- closed-form distributed loads
    # compared as rational functions over role-named atoms (robust to renaming and reordering)
    from ..poly import poly_roles, roles_of_text, cancel
    ck.rule('R-FORM.distributed', 'skin-effect / insulation per-length impedance equals the documented closed form')

    def local_env(func, upto=None):
        env = {}
        for s_ in walk_no_nested(func.node):
            if isinstance(s_, ast.Assign) and len(s_.targets) == 1 and isinstance(s_.targets[0], ast.Name):
                nm = s_.targets[0].id
                if nm in env:
                    env[nm] = None          # several definitions: keep opaque
                else:
                    env[nm] = s_.value
        return {k: v for k, v in env.items() if v is not None}

    def same(got_expr, env, want_text, key, func, node):
        try:
            got = cancel(poly_roles(got_expr, env))
            want = roles_of_text(want_text)
            ok = cancel(got - want).t == {}
            why = '%s == %s' % (norm(got_expr)[:60], want_text) if ok else \
                '%s evaluates to %r, documented form %s is %r' % (norm(got_expr)[:50], got, want_text, want)
        except (ValueError, ZeroDivisionError) as e_:
            ok, why = False, 'expression not understood: %s' % e_
        ck.ob('R-FORM.distributed', key, ok, func.loc(node), why)
    # The value returned per loop iteration is obtained as ONE closed expression per path by the
    # symbolic path walk (temporaries, flags and private helpers of the class are looked through)
    # and compared, as a polynomial over role-named atoms, with the documented formula.
    from ..symx import SymExec

    def path_forms(func):
        out = []
        for p_ in SymExec(ctx, func, effects=True).run():
            if p_.end != 'return' or p_.ret is None:
                continue
            try:
                pol = cancel(poly_roles(p_.ret, {}))
            except (ValueError, ZeroDivisionError) as e_:
                pol = 'not understood: %s' % e_
            out.append((p_, pol))
        return out

    def form_ob(func, key, want_texts, select, text):
        """the paths chosen by select(conds) return exactly the set of documented forms"""
        forms = [(p_, pol) for p_, pol in path_forms(func) if select(p_)]
        want = [roles_of_text(t_) for t_ in want_texts]
        got = [pol for p_, pol in forms]
        ok = bool(got) and all(not isinstance(g_, str) for g_ in got) and \
            all(any(cancel(g_ - w_).t == {} for w_ in want) for g_ in got) and \
            all(any(cancel(g_ - w_).t == {} for g_ in got) for w_ in want)
        why = text
        if not ok:
            bad = [(p_, g_) for p_, g_ in forms if isinstance(g_, str) or not any(cancel(g_ - w_).t == {} for w_ in want)]
            if bad:
                why = 'on the path %s the contribution is %s, documented: %s' % (
                    [c_ for c_ in bad[0][0].conds if c_[0] not in ('loop',)][-2:], norm(bad[0][0].ret)[:160], want_texts)
            else:
                why = 'documented form never produced: %s (paths: %d)' % (want_texts, len(got))
        ck.ob('R-FORM.distributed', key, ok, func.loc(), why)
        return len(forms)

    def cond_has(conds, frag, val):
        return any(isinstance(b_, bool) and b_ is val and frag in t_ for t_, b_ in conds)
    se_i = m.func('mininec.Skin_Effect_Load.impedance')
    K2 = '(-1j * (2 * pi * (f * 1e6)) * mu_0 * conductivity)'
    HALF = 'norm(dvecs(i - 0.5)[0] - dvecs(i - 0.5)[1])'
    PER_LEN = 'sqrt(%s) / (2 * pi * r_orig * conductivity)' % K2
    BESSEL = 'jv(0, sqrt(%s) * r_orig) / jv(1, sqrt(%s) * r_orig)' % (K2, K2)
    # (a miss is a path that stores the cache entry, a hit a path through the loop that does not - however the
    # test is written: `is None` / `is not None`, computed under the test or after an early return)
    def stores(p_, attr):
        return any(ev[0] == 'store' and (ev[1].endswith('.' + attr) or ('.%s[' % attr) in ev[1]) for ev in p_.events)
    miss = lambda p_: stores(p_, 'zint')
    hit = lambda p_: any(t_ == 'loop' for t_, b_ in p_.conds) and not stores(p_, 'zint') and \
        any('zint' in t_ for t_, b_ in p_.conds if isinstance(t_, str))
    n1 = form_ob(se_i, se_i.qual + '|zint', ['%s * %s * (%s)' % (HALF, PER_LEN, BESSEL), '%s * %s * 1j' % (HALF, PER_LEN)],
                 miss, 'contribution = |half segment| * k / (2 pi a sigma) * J0(ka)/J1(ka) (or its limit 1j), '
                 'k = sqrt(-j omega mu0 sigma)')
    n2 = form_ob(se_i, se_i.qual + '|length-of-half', ['%s * zint[1]' % HALF], hit,
                 'cached value is multiplied by the length of the half segment on object i')
    form_ob(se_i, se_i.qual + '|no-objects', ['0'], lambda p_: any(t_ == 'loop-skipped' for t_, b_ in p_.conds),
            'nothing is added for a pulse without skin-effect objects')
    ck.floor('skin-effect paths (cache miss / hit)', min(n1, 2) + min(n2, 1), 3)
    # the Bessel ratio is used below the overflow threshold, the asymptote above
    thr = [(t_, b_, pol) for p_, pol in path_forms(se_i) if miss(p_) for t_, b_ in p_.conds
           if isinstance(b_, bool) and t_.startswith('abs(')]
    ok = len(thr) == 2 and all(('jv(' in repr(pol)) == (b_ if '<' in t_ else not b_) for t_, b_, pol in thr)
    ck.ob('R-FORM.distributed', se_i.qual + '|bessel-ratio', ok, se_i.loc(),
          'Bessel ratio below the threshold on |k a|, asymptote above: %s' % sorted({(t_[-12:], b_) for t_, b_, pol_ in thr}))
    in_i = m.func('mininec.Insulation_Load.impedance')
    ZINS = 'mu_0 * (epsilon_r - 1) / epsilon_r * log(radius / r_orig) / (2 * pi)'
    OMG = '(2 * pi * (f * 1e6))'
    imiss = lambda p_: stores(p_, 'zins')
    ihit = lambda p_: not stores(p_, 'zins') and any('zins' in t_ for t_, b_ in p_.conds if isinstance(t_, str))
    n1 = form_ob(in_i, in_i.qual + '|zins', ['%s * %s * 1j * (seg_len / 2)' % (ZINS, OMG)], imiss,
                 'contribution = j omega * mu0 (eps_r - 1)/eps_r * ln(b/a) / (2 pi) * half segment length')
    n2 = form_ob(in_i, in_i.qual + '|contribution', ['zins * %s * 1j * (seg_len / 2)' % OMG], ihit,
                 'cached per-length inductance * j omega * half segment length')
    ck.floor('insulation paths (cache miss / hit)', min(n1, 1) + min(n2, 1), 2)
    gr = m.func('mininec.Geobj.r')
    rets = [r_ for r_ in walk_no_nested(gr.node) if isinstance(r_, ast.Return)]
    env_r = local_env(gr)
    forms = sorted(norm(ctx.flow(gr).inline(r_.value, ctx.flow(gr).node_id_of(r_))) for r_ in rets)
    ok = forms == sorted(['self._r', 'self.coat_load.radius * (self._r / self.coat_load.radius) ** (1 / self.coat_load.epsilon_r)'])
    ck.ob('R-FORM.distributed', gr.qual + '|equivalent-radius', ok, gr.loc(),
          'equivalent radius b * (a / b) ** (1 / eps_r) with insulation, a otherwise: %s' % forms)

    # ---------------------------------------------------------------- D5
    # attach to a whole object / to everything: on the symbolic paths of register_load (helpers, chained
    # generators looked through) add_pulse is reached once per pulse of <object>.pulse_iter() - ends included
    from ._addressing import paths_of, cond_value
    rl, rpaths = paths_of(ctx, 'mininec.Mininec.register_load')
    n_loops = 0
    bad_att = None
    for p_ in rpaths:
        if cond_value(p_, 'pulse is None') is not True:
            continue
        adds = [ev for ev in p_.events if ev[0] == 'call' and isinstance(ev[1], ast.Call) and
                isinstance(ev[1].func, ast.Attribute) and ev[1].func.attr == 'add_pulse']
        ent = [t_ for k_, t_ in p_.conds if k_ == 'loop' and 'pulse_iter(' in t_]
        args_ = [norm(ev[1].args[0]) if ev[1].args else '?' for ev in adds]
        through_iter = [a_ for a_ in args_ if _re.search(r'\.pulse_iter\(\)\[_k\d+\]$', a_)]
        if not adds:
            continue        # nothing attached on this path (empty collections)
        n_loops += 1
        if len(adds) != 1 or len(through_iter) != 1 or not (adds[0][3] or ent):
            bad_att = bad_att or 'add_pulse(%s) on the path %s' % (args_, [c_ for c_ in p_.conds if isinstance(c_[1], bool)][:4])
    ck.ob('R-EXH.attach', '%s|all-pulses-loop' % rl.qual, bad_att is None and n_loops >= 1, rl.loc(),
          'add_pulse once per pulse of pulse_iter() (ends included)' if bad_att is None else bad_att)
    ck.floor('attach-all loops', n_loops, 1)
    pi = m.func('mininec.Geobj.pulse_iter')
    d = pi.defaults().get('yield_ends')
    ok = isinstance(d, ast.Constant) and d.value is True and 'self.pulses' in ' '.join(norm(l.iter) for l in loops_in(pi.node))
    ck.ob('R-EXH.attach', pi.qual, ok, pi.loc(), 'pulse_iter() default yields all of self.pulses incl. junction pulses')
    # registration (possibly in a private helper called from register_load)
    cl = prog.closure([rl], edge_filter=lambda e: e.kind == 'call' and e.callee.cls is rl.cls)
    apps = []
    ok = True
    for q_ in cl:
        g_ = m.funcs[q_]
        gfl_ = ctx.flow(g_)
        for c in walk_no_nested(g_.node):
            if isinstance(c, ast.Call) and isinstance(c.func, ast.Attribute) and c.func.attr == 'append' \
               and norm(c.func.value) == 'self.loads' and len(c.args) == 1:
                apps.append(c)
                owner = norm(c.args[0])
                from ..cfg import must_atoms
                # (tests that hold on every path to the statement: nesting, early returns, guard clauses alike)
                gds = must_atoms(gfl_.cfg, gfl_.node_id_of(c))
                nums = [s_ for s_ in walk_no_nested(g_.node) if isinstance(s_, ast.Assign) and
                        norm(s_.targets[0]) == '%s.n' % owner]
                fresh = ('%s.n is None' % owner, True)
                ok = ok and fresh in gds and len(nums) >= 1 and \
                    all(norm(s_.value) == 'len(self.loads)' and fresh in must_atoms(gfl_.cfg, gfl_.node_id_of(s_))
                        for s_ in nums)
    ok = ok and len(apps) >= 1
    ck.ob('R-EXH.attach', rl.qual + '|register-once', ok, rl.loc(),
          'a load is numbered len(self.loads) and appended only under `<load>.n is None` (%d sites)' % len(apps))
    check_add_pulse(ctx, ck, 'R-EXH.attach')

    # junction pulses between a loaded and an unloaded wire
    ck.rule('R-SYM.junction-loads', 'a junction pulse gets the distributed load of whichever of its two wires is loaded')
    from ._junction_loads import check_junction_loads
    check_junction_loads(ctx, ck)
    # R-CACHE for the per-object skin cache (shared with C14)
    from .C14 import run_cache_rule
    sites_, n_ = run_cache_rule(ctx, ck, only={('*', 'zint'),
                                               ('*', 'zins')}, rule='R-CACHE.owner-only')
    ck.floor('per-object caches of distributed loads', n_, 2)
    ck.rule('R-CACHE.owner-only', 'cached per-length impedance depends only on its owner or is keyed')
    # every solve starts from a freshly filled matrix: the loads are added to the diagonal with +=, a matrix
    # kept from the previous solve would carry them twice (rule shared with C14)
    ck.rule('R-FRESH.solve-order', 'compute(): fill -> loads -> rhs -> solve, each exactly once on every path')
    from .C14 import check_solve_order
    check_solve_order(ctx, ck, rule='R-FRESH.solve-order')
    # the value of an option named after a constructor parameter reaches that parameter
    ck.rule('R-KIND.option-parameter', 'a value read from --<family>-<p> is handed to the parameter <p> of the load it creates, not to a sibling parameter')
    n_op = check_option_parameter(ctx, ck)
    ck.info('load_constructions_bound_to_their_option', n_op)
    # (a command line parsed by a table of option kinds has no such loops: nothing to judge, the positive example of
    # the catalogue shows on every thorough run that the rule fires on today's layout)
    n_direct = sum(1 for x_ in ast.walk(ctx.flat('mininec.main').node)
                   if isinstance(x_, ast.For) and isinstance(x_.iter, ast.Attribute) and x_.iter.attr.startswith('skin_effect_')
                   for c_ in ast.walk(x_) if isinstance(c_, ast.Call) and (dotted(c_.func) or '').endswith('Skin_Effect_Load'))
    ck.floor('load constructions bound to their option', n_op, min(n_direct, 4))
    ck.undecided += ['Bessel-function asymptote / closed-form wire impedance values',
                     'numerical equality of loaded and unloaded feed impedance']
