"""Reusable rule helpers (R-EFFECT, R-FRESH, R-EXH ...) shared by the property modules."""
import ast
from .model import AnalysisError, norm, dotted, walk_no_nested, parent, enclosing_stmt


# ---------------------------------------------------------------------------- lookups
def assigns_to_attr(func, attr_path):
    """statements in func that plainly assign `self.<attr>` (attr_path like 'self.power')"""
    out = []
    for n in walk_no_nested(func.node):
        if isinstance(n, ast.Assign):
            for t in n.targets:
                ts = t.elts if isinstance(t, (ast.Tuple, ast.List)) else [t]
                for x in ts:
                    if isinstance(x, ast.Attribute) and dotted(x) == attr_path:
                        out.append(n)
        elif isinstance(n, ast.AnnAssign) and n.value is not None:
            if isinstance(n.target, ast.Attribute) and dotted(n.target) == attr_path:
                out.append(n)
    return out


def calls_in(node, name=None, attr=None):
    """Call nodes under node (no nested defs) whose callee is Name `name` or attribute `.attr`"""
    out = []
    for n in walk_no_nested(node):
        if isinstance(n, ast.Call):
            if name is not None and isinstance(n.func, ast.Name) and n.func.id == name:
                out.append(n)
            elif attr is not None and isinstance(n.func, ast.Attribute) and n.func.attr == attr:
                out.append(n)
    return sorted(out, key=lambda c: (c.lineno, c.col_offset))


def loops_in(node):
    return sorted([n for n in walk_no_nested(node) if isinstance(n, (ast.For, ast.While))],
                  key=lambda c: c.lineno)


def is_none_test_context(n):
    """True if expression node n is used only to test None-ness / truthiness"""
    p = parent(n)
    if isinstance(p, ast.Compare) and len(p.ops) == 1 and isinstance(p.ops[0], (ast.Is, ast.IsNot)):
        other = p.comparators[0] if p.left is n else p.left
        if isinstance(other, ast.Constant) and other.value is None:
            return True
    if isinstance(p, ast.UnaryOp) and isinstance(p.op, ast.Not):
        return True
    if isinstance(p, (ast.If, ast.While, ast.IfExp)) and p.test is n:
        return True
    if isinstance(p, ast.BoolOp):
        # value of `a and b` used as a test
        pp = parent(p)
        if n is not p.values[-1]:
            return True
        return is_none_test_context(p)
    if isinstance(p, ast.Assert) and p.test is n:
        return True
    if isinstance(p, ast.Call) and isinstance(p.func, ast.Name) and p.func.id == 'bool':
        return True
    return False


# ---------------------------------------------------------------------------- R-EFFECT
def closure_with_paths(prog, entries, stop=None, edge_filter=None):
    return prog.closure(entries, stop=stop, edge_filter=edge_filter)


def describe_path(prog, seen, qual):
    return ' -> '.join(prog.path_to(seen, qual))


def forbidden_effects(prog, seen, forbidden, modes=None):
    """effects in the closure touching (cls, attr) in `forbidden` (attr '*' = any attr of cls)"""
    out = []
    for q in seen:
        for e in prog.effects.get(q, []):
            if modes is not None and not any(e.mode.startswith(m) for m in modes):
                continue
            if (e.cls, e.attr) in forbidden or (e.cls, '*') in forbidden:
                out.append(e)
    return out


def unresolved_named(prog, seen, attr_names):
    """unresolved-receiver effects in the closure whose attribute name is in attr_names"""
    out = []
    for q in seen:
        for e in prog.effects.get(q, []):
            if not e.resolved and e.attr in attr_names:
                out.append(e)
    return out


# ---------------------------------------------------------------------------- R-FRESH
def first_touch_is_plain_assign(flow, attr_path):
    """For function flow: every in-place update of self.<attr> (augmented assignment, subscript
    store, .append/.add/...) is preceded on all paths by a plain assignment of self.<attr>.
    returns (n_updates, [offending statement nodes])"""
    cfg = flow.cfg
    plain = set()
    updates = []
    for n in cfg.nodes:
        st = n.stmt
        if st is None or n.kind != 'stmt':
            continue
        if isinstance(st, ast.Assign):
            for t in st.targets:
                ts = t.elts if isinstance(t, (ast.Tuple, ast.List)) else [t]
                for x in ts:
                    if isinstance(x, ast.Attribute) and dotted(x) == attr_path:
                        plain.add(n.id)
                    elif isinstance(x, ast.Subscript):
                        b = x.value
                        while isinstance(b, ast.Subscript):
                            b = b.value
                        if isinstance(b, ast.Attribute) and dotted(b) == attr_path:
                            updates.append(n)
                        elif isinstance(b, ast.Attribute) and b.attr == 'T' and \
                                dotted(b.value) == attr_path:
                            updates.append(n)
        elif isinstance(st, ast.AugAssign):
            t = st.target
            b = t
            while isinstance(b, ast.Subscript):
                b = b.value
            if isinstance(b, ast.Attribute) and dotted(b) == attr_path:
                updates.append(n)
        elif isinstance(st, ast.Expr) and isinstance(st.value, ast.Call):
            c = st.value
            if isinstance(c.func, ast.Attribute) and c.func.attr in (
                    'append', 'add', 'extend', 'update', 'insert') and \
                    isinstance(c.func.value, ast.Attribute) and dotted(c.func.value) == attr_path:
                updates.append(n)
    bad = []
    for u in updates:
        if not cfg.must_pass(u.id, plain):
            bad.append(u.stmt)
    return len(updates), bad, len(plain)


# ---------------------------------------------------------------------------- R-EXH
def loop_reaches_on_all_paths(flow, loop_stmt, pred):
    """In every iteration of loop_stmt, a node satisfying pred(cfg node) is executed
    (min count over paths through the body >= 1).  returns (min, max) counts (max capped 3)."""
    cfg = flow.cfg
    hid = cfg.node_of(loop_stmt)
    if hid is None or hid not in cfg.loops:
        raise AnalysisError('loop not found in CFG at line %d' % loop_stmt.lineno)
    body, after = cfg.loops[hid]
    header = cfg.nodes[hid]
    first = [b for (b, l) in header.succ if l in ('iter', True)]
    if not first:
        raise AnalysisError('loop without body edge at line %d' % loop_stmt.lineno)
    stops = {hid, after, cfg.exit.id, cfg.raise_exit.id}
    return cfg.count_range(first[0], stops, lambda n: n.stmt is not None and pred(n),
                           region=body | {first[0]})


def stmt_contains_call(st, attr=None, name=None):
    for n in walk_no_nested(st) if not isinstance(st, ast.expr) else ast.walk(st):
        if isinstance(n, ast.Call):
            if attr and isinstance(n.func, ast.Attribute) and n.func.attr == attr:
                return n
            if name and isinstance(n.func, ast.Name) and n.func.id == name:
                return n
    return None


def node_exprs_contain(node, test):
    """test(ast node) true for some expression evaluated by the cfg node itself"""
    from .cfg import node_exprs
    for root in node_exprs(node):
        it = ast.walk(root) if isinstance(root, ast.expr) else walk_no_nested(root)
        for n in it:
            if test(n):
                return True
        if test(root):
            return True
    return False


def self_closure(ctx, func):
    """func plus the methods of its class it reaches through self-calls (helper extraction)"""
    prog = ctx.program
    seen = prog.closure([func], edge_filter=lambda e: e.kind in ('call', 'getter') and e.callee.cls is func.cls
                        and e.callee.cls is not None)
    return [ctx.model.funcs[q] for q in seen]


def loops_in_closure(ctx, func, pred):
    """[(function, loop)] for loops matching pred(loop) in func or its self-call helpers"""
    out = []
    for g in self_closure(ctx, func):
        for l in loops_in(g.node):
            if pred(l):
                out.append((g, l))
    return out


def yields_each_of(ctx, func):
    """text of the collection X when func hands out every element of X exactly once, unchanged:
         for a in X: yield a   |   yield from X   |   return iter(X)   |   return X
       None otherwise"""
    body = func.body()
    if len(body) != 1:
        return None
    st = body[0]
    if isinstance(st, ast.Expr) and isinstance(st.value, ast.YieldFrom):
        v = st.value.value
        if isinstance(v, ast.Call) and isinstance(v.func, ast.Name) and v.func.id == 'iter' and len(v.args) == 1:
            v = v.args[0]
        return norm(v)
    if isinstance(st, ast.Return) and st.value is not None:
        v = st.value
        if isinstance(v, ast.Call) and isinstance(v.func, ast.Name) and v.func.id == 'iter' and len(v.args) == 1:
            v = v.args[0]
        if isinstance(v, (ast.Attribute, ast.Name, ast.Subscript)):
            return norm(v)
        return None
    if isinstance(st, ast.For) and isinstance(st.target, ast.Name) and not st.orelse:
        flow = ctx.flow(func)
        tv = st.target.id
        mn, mx = loop_reaches_on_all_paths(flow, st, lambda n: n.stmt is not None and any(
            isinstance(x, ast.Yield) and x.value is not None and norm(x.value) == tv for x in ast.walk(n.stmt)))
        others = [x for x in ast.walk(st) if isinstance(x, (ast.Yield, ast.YieldFrom))]
        if (mn, mx) == (1, 1) and len(others) == 1:
            return norm(st.iter)
    return None


def writer_functions(ctx, words, exclude=()):
    """the text writers: functions whose name contains one of `words` plus the private helpers (name starting
    with `_`) they reach through calls on self or to module-level functions - a writer split into helper
    generators / row formatters is still one writer"""
    m = ctx.model
    prog = ctx.program
    base = [f for f in m.all_funcs() if any(w in f.name for w in words) and f.name not in exclude]
    seen = {f.qual: f for f in base}
    todo = list(base)
    while todo:
        f = todo.pop()
        for ed in prog.edges.get(f.qual, []):
            g = ed.callee
            if ed.kind not in ('call', 'getter') or g.qual in seen or not g.name.startswith('_') or g.name.startswith('__'):
                continue
            if g.cls is not None and f.cls is not None and g.cls not in f.cls.mro and f.cls not in g.cls.mro:
                continue
            seen[g.qual] = g
            todo.append(g)
    return list(seen.values())


_FRESH = ('eye', 'identity', 'zeros', 'ones', 'empty', 'full', 'array', 'zeros_like', 'ones_like', 'empty_like',
          'full_like', 'copy', 'diag', 'asarray')


def _fresh_array(v):
    if isinstance(v, ast.List):
        return True
    if isinstance(v, ast.BinOp) and isinstance(v.op, ast.Mult) and (isinstance(v.left, ast.List) or isinstance(v.right, ast.List)):
        return True
    if isinstance(v, ast.Call):
        d = dotted(v.func) or ''
        return d.split('.')[-1] in _FRESH and d.split('.')[0] in ('np', 'numpy') or (
            isinstance(v.func, ast.Attribute) and v.func.attr == 'copy' and not v.args)
    return False


def loop_scratch_hazards(func):
    """[(loop, name, store node, read node)]: an array / list bound before a loop (and not re-bound inside it) whose
    elements are stored inside the loop at positions that depend on the iteration, and which is read as a whole
    inside the same loop: what the previous iterations stored is still in it (a scratch object that is never reset).
    Scratch = created by an array / list constructor under this one name and not read after the loop; an alias of
    an attribute, a keyed collection or the array the loop builds up (read afterwards) is state kept on purpose."""
    out = []
    node = func.node
    loops = [l for l in ast.walk(node) if isinstance(l, (ast.For, ast.While))]
    for l in loops:
        inner = [x for b in l.body for x in ast.walk(b)]
        bound_in = {x.id for x in inner if isinstance(x, ast.Name) and isinstance(x.ctx, ast.Store)}
        if isinstance(l, ast.For):
            bound_in |= {x.id for x in ast.walk(l.target) if isinstance(x, ast.Name)}
        stores = {}
        for x in inner:
            if isinstance(x, ast.Assign):
                for t in x.targets:
                    if isinstance(t, ast.Subscript) and isinstance(t.value, ast.Name) and t.value.id not in bound_in:
                        idx_names = {y.id for y in ast.walk(t.slice) if isinstance(y, ast.Name)}
                        if idx_names & bound_in:
                            stores.setdefault(t.value.id, []).append(t)
        if not stores:
            continue
        par = {}
        for b in l.body:
            for x in ast.walk(b):
                for ch in ast.iter_child_nodes(x):
                    par[id(ch)] = x
        for nm, sts in stores.items():
            # bound (as a whole) somewhere in the function outside this loop
            outside = [x for x in ast.walk(node) if isinstance(x, ast.Name) and x.id == nm and isinstance(x.ctx, ast.Store)
                       and not any(x is y for y in inner)]
            if not outside:
                continue
            pa = {id(ch): x for x in ast.walk(node) for ch in ast.iter_child_nodes(x)}
            binds = [pa.get(id(x)) for x in outside]
            # a scratch object: created fresh by an array / list constructor under this one name (not an alias of
            # an attribute or of another object: those are the results being accumulated) ...
            if not binds or not all(isinstance(b, ast.Assign) and len(b.targets) == 1 and _fresh_array(b.value) for b in binds):
                continue
            # ... and used by this loop only (an array read after the loop is the result the loop builds)
            end = getattr(l, 'end_lineno', l.lineno)
            if any(isinstance(x, ast.Name) and x.id == nm and isinstance(x.ctx, ast.Load) and x.lineno > end
                   for x in ast.walk(node)):
                continue
            for x in inner:
                if isinstance(x, ast.Name) and x.id == nm and isinstance(x.ctx, ast.Load):
                    p = par.get(id(x))
                    if isinstance(p, ast.Subscript) and p.value is x:
                        continue            # an element / slice read or store
                    if isinstance(p, ast.Attribute) and p.attr in ('shape', 'dtype', 'size', 'ndim'):
                        continue
                    if isinstance(p, ast.Call) and isinstance(p.func, ast.Name) and p.func.id == 'len':
                        continue
                    if isinstance(p, ast.Compare) and any(isinstance(o, (ast.In, ast.NotIn)) for o in p.ops):
                        continue            # a membership test on a dictionary that is being filled
                    out.append((l, nm, sts[0], x))
                    break
    return out


def check_loop_scratch(ctx, ck, rule, modules=('mininec', 'taper')):
    """every function of the geometry modules that stores into elements of an outer array inside a loop"""
    n = 0
    for f in ctx.model.all_funcs():
        if f.qual.split('.')[0] not in modules:
            continue
        if not any(isinstance(x, (ast.For, ast.While)) for x in ast.walk(f.node)):
            continue
        hz = loop_scratch_hazards(f)
        n += 1
        if hz:
            l, nm, st, rd = hz[0]
            ck.ob(rule, f.qual, False, f.loc(rd),
                  '`%s` is bound before the loop, its elements `%s` are stored per iteration and it is read as a whole '
                  'inside the loop: entries stored by earlier iterations are still in it' % (nm, norm(st)))
        else:
            ck.ob(rule, f.qual, True, f.loc(), 'no array bound outside a loop is partly overwritten and read whole inside it')
    return n


_ARRAY_MAKERS = ('array', 'zeros', 'ones', 'empty', 'full', 'copy', 'asarray', 'stack', 'vstack', 'hstack', 'concatenate',
                 'zeros_like', 'ones_like', 'eye', 'identity', 'tile', 'repeat', 'arange', 'linspace')


def alias_mutations(ctx):
    """[(class, alias stmt, func of alias, attr A, attr B, mutating stmt, func)]: `self.A = self.B` makes A another name
    of the array object in B (B is bound to a numpy array / list somewhere in the class family); a later in-place
    update of either (`self.B += d`, `self.B[i] = v`, through a local that names it) changes both"""
    m = ctx.model
    out = []
    aliases = []
    for ci in m.classes.values():
        for g in ci.methods.values():
            for s in walk_no_nested(g.node):
                if isinstance(s, ast.Assign) and len(s.targets) == 1:
                    t, v = s.targets[0], s.value
                    if isinstance(t, ast.Attribute) and isinstance(t.value, ast.Name) and t.value.id == 'self' and \
                       isinstance(v, ast.Attribute) and isinstance(v.value, ast.Name) and v.value.id == 'self' and t.attr != v.attr:
                        aliases.append((ci, g, s, t.attr, v.attr))
    if not aliases:
        return out, 0

    def family(ci):
        fam = {c.name for c in ci.mro}
        for cj in m.classes.values():
            if ci in cj.mro:
                fam.add(cj.name)
        return fam
    n = 0
    for ci, g, s, A, B in aliases:
        fam = family(ci)
        methods = [h for cj in m.classes.values() if cj.name in fam for h in cj.methods.values()]
        # B holds an array object
        is_arr = False
        for h in methods:
            for x in walk_no_nested(h.node):
                if isinstance(x, ast.Assign):
                    for t in x.targets:
                        if isinstance(t, ast.Attribute) and isinstance(t.value, ast.Name) and t.value.id == 'self' and t.attr == B:
                            v = x.value
                            if isinstance(v, (ast.List, ast.ListComp)) or (isinstance(v, ast.Call) and
                                                                          (dotted(v.func) or '').split('.')[-1] in _ARRAY_MAKERS):
                                is_arr = True
        if not is_arr:
            continue
        n += 1
        for h in methods:
            loc = {}
            for x in walk_no_nested(h.node):
                if isinstance(x, ast.Assign) and len(x.targets) == 1 and isinstance(x.targets[0], ast.Name) and \
                   isinstance(x.value, ast.Attribute) and isinstance(x.value.value, ast.Name) and x.value.value.id == 'self' \
                   and x.value.attr in (A, B):
                    loc[x.targets[0].id] = x.value.attr

            def names(e):
                if isinstance(e, ast.Attribute) and isinstance(e.value, ast.Name) and e.value.id == 'self' and e.attr in (A, B):
                    return e.attr
                if isinstance(e, ast.Name) and e.id in loc:
                    return loc[e.id]
                return None
            for x in walk_no_nested(h.node):
                hit = None
                if isinstance(x, ast.AugAssign):
                    t = x.target
                    hit = names(t) or (names(t.value) if isinstance(t, ast.Subscript) else None)
                    if isinstance(t, ast.Name) and hit is not None and not any(
                            isinstance(y, ast.Assign) and y.targets[0] is not None for y in []):
                        pass
                elif isinstance(x, ast.Assign):
                    for t in x.targets:
                        if isinstance(t, ast.Subscript) and names(t.value):
                            hit = names(t.value)
                if hit is not None:
                    out.append((ci, s, g, A, B, x, h))
    return out, n


def local_memo_hazards(func):
    """[(store stmt, key text, names)]: a local dictionary used as a memo (`if K not in D: D[K] = V` ... `D[K]`) whose
    value V is computed from more than the key: a name that occurs in the key (`pulse` in `pulse.geobj`) occurs in V
    outside that key expression, so entries computed for one element are handed out for another"""
    out = []
    locals_dict = {s.targets[0].id for s in walk_no_nested(func.node)
                   if isinstance(s, ast.Assign) and len(s.targets) == 1 and isinstance(s.targets[0], ast.Name)
                   and (isinstance(s.value, ast.Dict) and not s.value.keys or
                        (isinstance(s.value, ast.Call) and isinstance(s.value.func, ast.Name) and s.value.func.id == 'dict'
                         and not s.value.args and not s.value.keywords))}
    if not locals_dict:
        return out
    for st in walk_no_nested(func.node):
        if not (isinstance(st, ast.Assign) and len(st.targets) == 1 and isinstance(st.targets[0], ast.Subscript)
                and isinstance(st.targets[0].value, ast.Name) and st.targets[0].value.id in locals_dict):
            continue
        d = st.targets[0].value.id
        key = st.targets[0].slice
        ktxt = norm(key)
        # guarded by a membership test on the same key
        p = parent(st)
        guarded = False
        grouping = False
        while p is not None and p is not func.node:
            if isinstance(p, ast.If) and isinstance(p.test, ast.Compare) and len(p.test.ops) == 1 and \
               isinstance(p.test.ops[0], (ast.NotIn, ast.In)) and norm(p.test.left) == ktxt and \
               norm(p.test.comparators[0]) == d:
                guarded = True
                # `if k not in d: d[k] = [x] else: d[k].append(x)` collects the elements of a key: not a memo
                for y in ast.walk(p):
                    if isinstance(y, ast.Call) and isinstance(y.func, ast.Attribute) and y.func.attr in ('append', 'extend', 'add', 'update') \
                       and isinstance(y.func.value, ast.Subscript) and norm(y.func.value) == '%s[%s]' % (d, ktxt):
                        grouping = True
                    if isinstance(y, ast.AugAssign) and norm(y.target) == '%s[%s]' % (d, ktxt):
                        grouping = True
            p = parent(p)
        if not guarded or grouping:
            continue
        if isinstance(key, ast.Name):
            # `n = pulse.geobj.n; if n not in d: d[n] = ...`: the key is what the local was bound to
            ds_ = [x.value for x in walk_no_nested(func.node) if isinstance(x, ast.Assign) and len(x.targets) == 1
                   and isinstance(x.targets[0], ast.Name) and x.targets[0].id == key.id]
            if len(ds_) == 1 and isinstance(ds_[0], ast.Attribute):
                key = ds_[0]
        knames = {x.id for x in ast.walk(key) if isinstance(x, ast.Name)}
        if isinstance(key, ast.Name):
            continue            # keyed by the whole element
        ktxt = norm(key)
        inside = set()
        # a key that ends in an identifying attribute (`geobj.n`, `pulse.idx`, `w.tag`) stands for its object: the
        # object itself (any receiver prefix of the key) may be used in the value
        prefixes = {ktxt}
        k_ = key
        ident = isinstance(key, ast.Attribute) and key.attr in ('n', 'idx', 'tag', 'id', 'name', 'key', 'number')
        if ident:
            prefixes.add(norm(key.value))       # `X.n` identifies X (and only X: not what X was reached from)
        for x in ast.walk(st.value):
            if isinstance(x, ast.expr) and norm(x) in prefixes:
                for y in ast.walk(x):
                    inside.add(id(y))
        loose = sorted({x.id for x in ast.walk(st.value) if isinstance(x, ast.Name) and x.id in knames and id(x) not in inside})
        if loose:
            out.append((st, ktxt, loose))
    return out
