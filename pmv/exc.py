"""R-EXC: interprocedural may-raise analysis.

Raise sites:
  explicit   `raise E(...)`
  lookup     `<x>.by_tag[k]` without a dominating membership / .get test      -> KeyError
  convert    int()/float()/complex() of text (only in the entry function)      -> ValueError
  open       open(path)                                                         -> OSError
  starcall   f(*list) where the list length is not dominated by a length test   -> TypeError
A site escapes a function when no enclosing `try` (whose *body* contains it) has a handler for its
class; it escapes the entry point when additionally no handler on the call path catches it.
Branches decided by the None-ness of omitted / literal-None arguments are pruned.
"""
import ast
from .model import AnalysisError, norm, dotted, walk_no_nested, parent

BUILTIN_BASES = {
    'ValueError': 'Exception', 'KeyError': 'LookupError', 'IndexError': 'LookupError',
    'LookupError': 'Exception', 'TypeError': 'Exception', 'NotImplementedError': 'RuntimeError',
    'RuntimeError': 'Exception', 'OSError': 'Exception', 'IOError': 'OSError',
    'FileNotFoundError': 'OSError', 'AssertionError': 'Exception', 'AttributeError': 'Exception',
    'ZeroDivisionError': 'ArithmeticError', 'ArithmeticError': 'Exception',
    'UnboundLocalError': 'NameError', 'NameError': 'Exception', 'Exception': 'BaseException',
    'StopIteration': 'Exception', 'SystemExit': 'BaseException',
}


class Site:
    __slots__ = ('exc', 'func', 'node', 'kind', 'text')

    def __init__(self, exc, func, node, kind, text):
        self.exc = exc
        self.func = func
        self.node = node
        self.kind = kind
        self.text = text

    @property
    def key(self):
        return '%s|%s|%s|%s' % (self.exc, self.func.qual, self.kind, self.text)


class ExcAnalysis:
    def __init__(self, ctx, entry_qual='mininec.main'):
        self.ctx = ctx
        self.m = ctx.model
        self.prog = ctx.program
        self.entry = self.m.func(entry_qual)
        self.memo = {}
        self.busy = set()
        self.local_sites = {}
        self.pruned = []
        self.skip_callees = set()

    def entry_helpers(self):
        """module-level functions of the entry point's module that it calls (directly or through one
        another): user text reaches their parameters, so conversions in them are user-text conversions"""
        if getattr(self, '_entry_helpers', None) is None:
            seen = self.prog.closure([self.entry], edge_filter=lambda e: e.kind == 'call' and e.callee.cls is None
                                     and e.callee.module is self.entry.module)
            self._entry_helpers = {q for q in seen if q != self.entry.qual}
        return self._entry_helpers

    # ---------------------------------------------------------------- hierarchy
    def bases(self, name):
        out = [name]
        cur = name
        seen = set()
        while cur and cur not in seen:
            seen.add(cur)
            if cur in self.m.classes:
                bs = self.m.classes[cur].base_names
                cur = bs[0] if bs else None
            else:
                cur = BUILTIN_BASES.get(cur)
            if cur:
                out.append(cur)
        return out

    def handler_catches(self, handler, exc):
        if handler.type is None:
            return True
        types = handler.type.elts if isinstance(handler.type, ast.Tuple) else [handler.type]
        names = [dotted(t) or '?' for t in types]
        bs = self.bases(exc)
        return any(n.split('.')[-1] in bs for n in names)

    def enclosing_handlers(self, func, node):
        """handlers of try statements whose body contains node (innermost first)"""
        out = []
        child = node
        p = parent(node)
        while p is not None and p is not func.node:
            if isinstance(p, ast.Try) and any(child is s for s in p.body):
                out.append(p)
            child = p
            p = parent(p)
        return out

    def caught_locally(self, func, node, exc):
        for t in self.enclosing_handlers(func, node):
            for h in t.handlers:
                if self.handler_catches(h, exc):
                    return h
        return None

    def _abstract_hook(self, func):
        """a method that only says "define me in a derived class" (body = raise NotImplementedError) and that every
        class which can be instantiated overrides: the classes that would inherit it are never named outside class
        headers and isinstance tests, so no object of them exists"""
        if func.cls is None:
            return False
        body = func.body()
        if len(body) != 1 or not isinstance(body[0], ast.Raise):
            return False
        cache = self.__dict__.setdefault('_named_classes', None)
        if cache is None:
            cache = set()
            for mod in self.m.modules.values():
                for n in ast.walk(mod.tree):
                    if isinstance(n, ast.Name) and isinstance(n.ctx, ast.Load) and n.id in self.m.classes:
                        p_ = parent(n)
                        if isinstance(p_, ast.ClassDef) and n in p_.bases:
                            continue
                        if isinstance(p_, ast.Call) and isinstance(p_.func, ast.Name) and p_.func.id in ('isinstance', 'issubclass') \
                           and n in p_.args[1:]:
                            continue
                        if isinstance(p_, ast.Tuple) and isinstance(parent(p_), ast.Call) and \
                           isinstance(parent(p_).func, ast.Name) and parent(p_).func.id in ('isinstance', 'issubclass'):
                            continue
                        cache.add(n.id)
            self._named_classes = cache
        callers = [self.m.funcs[q] for q, es in self.prog.edges.items() for e in es
                   if e.callee.qual == func.qual and q in self.m.funcs]
        for k in [func.cls] + list(func.cls.subclasses):
            g = self.m.resolve_method(k.name, func.name)
            if g is not None and g.qual == func.qual and k.name in cache:
                # a class that may be instantiated inherits the placeholder: it is reached only through a method
                # that this class uses as well (a sibling template that the class overrides never calls it)
                for c in callers:
                    if c.cls is None:
                        return False
                    gc = self.m.resolve_method(k.name, c.name)
                    if gc is not None and gc.qual == c.qual:
                        return False
                if not callers:
                    return False
        return True

    # ---------------------------------------------------------------- local sites
    def sites_of(self, func):
        if func.qual in self.local_sites:
            return self.local_sites[func.qual]
        out = []
        # the entry point and the module-level helpers it hands the user's text to
        is_entry = func is self.entry or func.qual in self.entry_helpers()
        fl = None
        for n in walk_no_nested(func.node):
            if isinstance(n, ast.Raise):
                exc = 'Exception'
                if n.exc is None:
                    # a bare `raise` hands on what the enclosing handler caught
                    hp_ = parent(n)
                    while hp_ is not None and hp_ is not func.node and not isinstance(hp_, ast.ExceptHandler):
                        hp_ = parent(hp_)
                    if isinstance(hp_, ast.ExceptHandler) and hp_.type is not None and not isinstance(hp_.type, ast.Tuple):
                        exc = (dotted(hp_.type) or 'Exception').split('.')[-1]
                if n.exc is not None:
                    e = n.exc.func if isinstance(n.exc, ast.Call) else n.exc
                    exc = (dotted(e) or 'Exception').split('.')[-1]
                    if isinstance(n.exc, ast.Name) and n.exc.id not in BUILTIN_BASES and \
                       n.exc.id not in self.m.classes:
                        exc = 'Exception'     # re-raise of a caught instance
                # protocol idiom: __getattr__ raising AttributeError
                if func.name == '__getattr__' and exc == 'AttributeError':
                    continue
                if exc == 'NotImplementedError' and self._abstract_hook(func):
                    continue
                msg = ''
                if isinstance(n.exc, ast.Call) and n.exc.args:
                    a = n.exc.args[0]
                    while isinstance(a, ast.BinOp):
                        a = a.left
                    if isinstance(a, ast.Constant) and isinstance(a.value, str):
                        msg = a.value[:90]
                out.append(Site(exc, func, n, 'raise', msg or norm(n)[:60]))
            elif isinstance(n, ast.Subscript) and isinstance(n.ctx, ast.Load) and \
                    isinstance(n.value, ast.Attribute) and n.value.attr == 'by_tag':
                if not self._lookup_guarded(func, n):
                    out.append(Site('KeyError', func, n, 'lookup', norm(n)))
            elif isinstance(n, ast.Call):
                d = dotted(n.func) or ''
                if is_entry and d in ('int', 'float', 'complex') and len(n.args) == 1 and \
                        not isinstance(n.args[0], ast.Constant):
                    out.append(Site('ValueError', func, n, 'convert', norm(n)[:60]))
                elif d == 'open':
                    out.append(Site('OSError', func, n, 'open', norm(n)[:60]))
                st = [a for a in n.args if isinstance(a, ast.Starred)]
                if st and is_entry:
                    fl = fl or self.ctx.flow(func)
                    if not self._star_guarded(func, fl, n, st[0]):
                        out.append(Site('TypeError', func, n, 'starcall', norm(n)[:70]))
        self.local_sites[func.qual] = out
        return out

    def _lookup_guarded(self, func, sub):
        """a dominating `if not X.by_tag.get(k): raise/return` or `k in X.by_tag` test"""
        fl = self.ctx.flow(func)
        key = norm(sub.slice)
        nid = fl.node_id_of(sub)
        for n in walk_no_nested(func.node):
            if isinstance(n, ast.If):
                t = norm(n.test)
                if ('by_tag.get(%s)' % key in t or '%s in ' % key in t and 'by_tag' in t or
                        '%s not in ' % key in t and 'by_tag' in t):
                    # the failing branch leaves (raise / return)
                    if any(isinstance(s, (ast.Raise, ast.Return)) for s in n.body):
                        tid = fl.cfg.node_of(n)
                        if tid is not None and nid is not None and fl.cfg.must_pass(nid, {tid}):
                            return True
        return False

    def _star_guarded(self, func, fl, call, star):
        """the starred list (or the list it is derived from) has its length tested before"""
        v = star.value
        names = {x.id for x in ast.walk(v) if isinstance(x, ast.Name)}
        # follow one level of derivation: r = [float(x) for x in aparams[1:]]
        nid = fl.node_id_of(call)
        # a tuple / list literal on every reaching definition: the length is fixed by the program
        if isinstance(v, ast.Name) and v.id in fl.rd.names:
            ds = fl.def_exprs(v.id, nid)
            if ds and all(d[0] == 'assign' and isinstance(d[1], (ast.Tuple, ast.List)) and
                          not any(isinstance(x, ast.Starred) for x in d[1].elts) for d in ds):
                return True
        if isinstance(v, (ast.Tuple, ast.List)) and not any(isinstance(x, ast.Starred) for x in v.elts):
            return True
        # the lists the starred one is derived from (r = [float(x) for x in p[1:]] ; a, *rest = p ; rest = rest[:2]):
        # a length test on any of them bounds the starred list
        src = set(names)
        todo = [(nm, nid) for nm in names]
        seen_ = set()
        for _round in range(4):
            nxt = []
            for nm, at in todo:
                if nm not in fl.rd.names or (nm, at) in seen_:
                    continue
                seen_.add((nm, at))
                for d in fl.def_exprs(nm, at):
                    if d[0] in ('assign', 'unpack', 'for-unpack') and d[1] is not None:
                        new_ = {x.id for x in ast.walk(d[1]) if isinstance(x, ast.Name)}
                        src |= new_
                        nxt += [(x, d[2]) for x in new_ if d[2] is not None]
            todo = nxt
        if isinstance(v, ast.Call):
            return False        # f(*g(text)): nothing bounds the length
        for n in walk_no_nested(func.node):
            if isinstance(n, ast.If):
                for c in ast.walk(n.test):
                    if isinstance(c, ast.Call) and isinstance(c.func, ast.Name) and c.func.id == 'len' \
                       and c.args and isinstance(c.args[0], ast.Name) and c.args[0].id in src:
                        if any(isinstance(s, (ast.Return, ast.Raise)) for s in n.body):
                            tid = fl.cfg.node_of(n)
                            if tid is not None and fl.cfg.must_pass(nid, {tid}):
                                return True
        return False

    # ---------------------------------------------------------------- None-ness pruning
    def _dict_keys(self, caller, name):
        """the keys a local dict of `caller` can hold: every binding is a dict display / dict(k=...) / a conditional
        expression of such, every other store is NAME['k'] = v; None when it cannot be told"""
        keys = set()
        nb = 0
        for n in walk_no_nested(caller.node):
            if isinstance(n, ast.Name) and n.id == name and isinstance(n.ctx, ast.Store):
                st = parent(n)
                if not (isinstance(st, ast.Assign) and len(st.targets) == 1 and st.targets[0] is n):
                    return None
                vals = [st.value]
                while vals:
                    v = vals.pop()
                    if isinstance(v, ast.IfExp):
                        vals += [v.body, v.orelse]
                    elif isinstance(v, ast.Dict) and all(isinstance(k_, ast.Constant) and isinstance(k_.value, str) for k_ in v.keys):
                        keys |= {k_.value for k_ in v.keys}
                    elif isinstance(v, ast.Call) and isinstance(v.func, ast.Name) and v.func.id == 'dict' and not v.args and \
                            all(k_.arg is not None for k_ in v.keywords):
                        keys |= {k_.arg for k_ in v.keywords}
                    else:
                        return None
                nb += 1
            elif isinstance(n, ast.Name) and n.id == name and isinstance(n.ctx, ast.Load):
                st = parent(n)
                if isinstance(st, ast.Subscript) and st.value is n and isinstance(st.ctx, ast.Store):
                    if isinstance(st.slice, ast.Constant) and isinstance(st.slice.value, str):
                        keys.add(st.slice.value)
                    else:
                        return None
                elif isinstance(st, ast.Attribute) and st.attr in ('update', 'setdefault', 'pop', 'clear', 'popitem'):
                    return None
        if name in caller.all_params or nb == 0:
            return None
        return keys

    def none_params(self, call, callee, kind, caller=None, caller_none=frozenset()):
        """parameters of callee that are certainly None for this call"""
        out = set()
        if kind not in ('call', 'ctor') or not isinstance(call, ast.Call):
            return frozenset()
        params = callee.bound_params()
        if any(isinstance(a, ast.Starred) for a in call.args):
            return frozenset()
        star_keys = set()
        for k in call.keywords:
            if k.arg is None:
                # **d: only the keys the local dict can hold may be given by it
                ks = self._dict_keys(caller, k.value.id) if caller is not None and isinstance(k.value, ast.Name) else None
                if ks is None:
                    return frozenset()
                star_keys |= ks
        given = {}
        for i, a in enumerate(call.args):
            if i < len(params):
                given[params[i]] = a
        for k in call.keywords:
            if k.arg is not None:
                given[k.arg] = k.value
        trusted = set(caller_none)
        if caller is not None and trusted:
            trusted -= {n.id for n in walk_no_nested(caller.node) if isinstance(n, ast.Name) and isinstance(n.ctx, ast.Store)}
        defaults = callee.defaults()
        for p in callee.all_params:
            if p in star_keys:
                continue
            if p in given:
                if isinstance(given[p], ast.Constant) and given[p].value is None:
                    out.add(p)
                elif isinstance(given[p], ast.Name) and given[p].id in trusted:
                    out.add(p)      # a parameter of the caller that is None here, handed on unchanged
            elif p in defaults and isinstance(defaults[p], ast.Constant) and defaults[p].value is None:
                out.add(p)
        return frozenset(out)

    def _eval_none(self, test, none, alias=None):
        """True / False / None(unknown) of a test given parameters known to be None (alias: local names bound
        once to a test, `polar = phase is not None`)"""
        if alias:
            if isinstance(test, ast.Name) and test.id in alias:
                return self._eval_none(alias[test.id], none)
            if isinstance(test, ast.UnaryOp) and isinstance(test.op, ast.Not):
                v = self._eval_none(test.operand, none, alias)
                return None if v is None else (not v)
            if isinstance(test, ast.BoolOp):
                vals = [self._eval_none(v, none, alias) for v in test.values]
                if isinstance(test.op, ast.And):
                    return False if any(v is False for v in vals) else (True if all(v is True for v in vals) else None)
                return True if any(v is True for v in vals) else (False if all(v is False for v in vals) else None)
        if isinstance(test, ast.Compare) and len(test.ops) == 1 and isinstance(test.left, ast.Name) and \
           isinstance(test.comparators[0], ast.Constant) and test.comparators[0].value is None:
            if test.left.id in none:
                return isinstance(test.ops[0], ast.Is)
            return None
        if isinstance(test, ast.Name) and test.id in none:
            return False
        if isinstance(test, ast.UnaryOp) and isinstance(test.op, ast.Not):
            v = self._eval_none(test.operand, none)
            return None if v is None else (not v)
        if isinstance(test, ast.BoolOp):
            vals = [self._eval_none(v, none) for v in test.values]
            if isinstance(test.op, ast.And):
                if any(v is False for v in vals):
                    return False
                if all(v is True for v in vals):
                    return True
                return None
            if any(v is True for v in vals):
                return True
            if all(v is False for v in vals):
                return False
            return None
        return None

    def reachable_with(self, func, node, none):
        """False if the guard chain of node contradicts the known-None parameters (parameters that
        are re-assigned in the function are not trusted)"""
        if not none:
            return True
        reassigned = {n.id for n in walk_no_nested(func.node) if isinstance(n, ast.Name) and
                      isinstance(n.ctx, ast.Store)}
        none = {p for p in none if p not in reassigned}
        # local names bound exactly once (by a plain assignment at the top level of the function) to a test
        nstore = {}
        for n in walk_no_nested(func.node):
            if isinstance(n, ast.Name) and isinstance(n.ctx, ast.Store):
                nstore[n.id] = nstore.get(n.id, 0) + 1
        alias = {st.targets[0].id: st.value for st in func.body()
                 if isinstance(st, ast.Assign) and len(st.targets) == 1 and isinstance(st.targets[0], ast.Name)
                 and nstore.get(st.targets[0].id) == 1 and isinstance(st.value, (ast.Compare, ast.BoolOp, ast.UnaryOp))}
        child = node
        p = parent(node)
        while p is not None and p is not func.node:
            if isinstance(p, ast.If):
                v = self._eval_none(p.test, none, alias)
                if v is not None:
                    in_body = any(child is s for s in p.body)
                    in_else = any(child is s for s in p.orelse)
                    if (in_body and v is False) or (in_else and v is True):
                        return False
            child = p
            p = parent(p)
        return True

    # ---------------------------------------------------------------- escaping sets
    def escaping(self, func, none=frozenset(), depth=0):
        """[(Site, path)] raise sites that can leave func (path = list of (func, call node))"""
        key = (func.qual, none, frozenset(self.skip_callees))
        if key in self.memo:
            return self.memo[key]
        if key in self.busy or depth > 40:
            return []
        self.busy.add(key)
        out = []
        seen = set()
        for s in self.sites_of(func):
            if not self.reachable_with(func, s.node, none):
                self.pruned.append((s, 'argument None-ness'))
                continue
            if self.caught_locally(func, s.node, s.exc):
                continue
            if s.key not in seen:
                seen.add(s.key)
                out.append((s, []))
        for ed in self.prog.edges.get(func.qual, []):
            if ed.kind == 'addr-taken':
                continue
            if not self.reachable_with(func, ed.node, none):
                continue
            callee = ed.callee
            if callee.qual in self.skip_callees:
                continue
            cn = self.none_params(ed.node, callee, ed.kind, caller=func, caller_none=none)
            for (s, path) in self.escaping(callee, cn, depth + 1):
                if self.caught_locally(func, ed.node, s.exc):
                    continue
                if s.key not in seen:
                    seen.add(s.key)
                    out.append((s, [(func, ed.node)] + path))
        self.busy.discard(key)
        self.memo[key] = out
        return out

    def all_sites_in_closure(self):
        seen = self.prog.closure([self.entry], edge_filter=lambda e: e.kind != 'addr-taken')
        # address-taken methods are called through t[1](...) - include them
        seen2 = self.prog.closure([self.entry])
        out = []
        for q in seen2:
            f = self.m.funcs[q]
            out += self.sites_of(f)
        return out, seen2
