"""R-BOUNDS.pulse-index: a user-supplied pulse number that indexes a pulse list `<obj>.pulses[k]`
is compared against the length of that same list (and rejected with an exception / return) on
every path to the subscript.  Checking against the length of another list (the pulses of the
whole antenna instead of those of the object) lets an IndexError escape or addresses a wrong
pulse."""
import ast
from ..model import AnalysisError, walk_no_nested, norm, dotted, parent


def _list_text(fl, e, at):
    """normalised text of a pulse-list expression with local aliases inlined"""
    return norm(fl.inline(e, at, depth=3))


def pulse_subscripts(ctx, func):
    """[(subscript node, list text, index name)] for `<x>.pulses[<name>]` / alias[<name>] loads"""
    fl = ctx.flow(func)
    out = []
    for n in walk_no_nested(func.node):
        if isinstance(n, ast.Subscript) and isinstance(n.ctx, ast.Load) and isinstance(n.slice, ast.Name):
            at = fl.node_id_of(n)
            if at is None:
                continue
            txt = _list_text(fl, n.value, at)
            if txt.endswith('.pulses') or txt == 'self.pulses':
                out.append((n, txt, n.slice.id, at))
    return out


def check_pulse_bounds(ctx, ck, entry_quals, rule='R-BOUNDS.pulse-index'):
    m = ctx.model
    prog = ctx.program
    funcs = []
    for q in entry_quals:
        f = m.func(q)
        seen = prog.closure([f], edge_filter=lambda e: e.kind == 'call' and e.callee.cls is f.cls)
        for qq in seen:
            if m.funcs[qq] not in funcs:
                funcs.append(m.funcs[qq])
    n = 0
    for f in sorted(funcs, key=lambda x: x.qual):
        fl = ctx.flow(f)
        params = set(f.all_params)
        for sub, ltxt, k, at in pulse_subscripts(ctx, f):
            # which definitions of the index reach the subscript?
            defs = fl.def_exprs(k, at)
            kinds = []
            for d in defs:
                if d[0] == 'param':
                    kinds.append(('param', None))
                elif d[0] == 'assign':
                    v = d[1]
                    if isinstance(v, ast.Attribute) and v.attr == 'idx':
                        kinds.append(('idx', None))          # index of an existing pulse
                    elif isinstance(v, ast.Name) and v.id in params:
                        kinds.append(('param', v.id))
                    elif isinstance(v, ast.Call):
                        kinds.append(('call', v))
                    else:
                        kinds.append(('other', v))
                elif d[0] in ('for', 'for-unpack'):
                    kinds.append(('loop', None))
                else:
                    kinds.append(('other', None))
            if all(kd[0] in ('idx', 'loop') for kd in kinds):
                continue
            if all(kd[0] in ('idx', 'loop', 'call') for kd in kinds) and any(kd[0] == 'call' for kd in kinds):
                # value produced by a helper of the package: its returns are judged there
                continue
            # every definition that carries a user number must be dominated by
            #   if <name> >= len(<same list>): raise / return
            # (definitions that are the .idx of an existing pulse need no check)
            checks = []
            for t in walk_no_nested(f.node):
                if not isinstance(t, ast.If):
                    continue
                if not any(isinstance(s_, (ast.Raise, ast.Return)) for s_ in t.body):
                    continue
                for c in ast.walk(t.test):
                    if isinstance(c, ast.Compare) and len(c.ops) == 1 and isinstance(c.ops[0], (ast.GtE, ast.Gt)) \
                       and isinstance(c.left, ast.Name) \
                       and isinstance(c.comparators[0], ast.Call) and norm(c.comparators[0].func) == 'len':
                        tid = fl.cfg.node_of(t)
                        checks.append((c.left.id, _list_text(fl, c.comparators[0].args[0], tid), tid))
            seen_checks = [c_[1] for c_ in checks]
            ok = True
            for d, kd in zip(defs, kinds):
                if kd[0] in ('idx', 'loop', 'call'):
                    continue
                if kd[0] == 'param' and kd[1] is None:
                    target, nm = at, k                  # the parameter itself is the index
                elif kd[0] == 'param':
                    target, nm = d[2], kd[1]            # p = pulse : the check must precede this copy
                else:
                    ok = False
                    continue
                if not any(cn == nm and ct == ltxt and fl.cfg.must_pass(target, {tid})
                           for (cn, ct, tid) in checks):
                    ok = False
            n += 1
            ck.ob(rule, '%s|%s[%s]' % (f.qual, ltxt, k), ok, f.loc(sub),
                  '%s[%s] is preceded by a range check against len(%s)' % (ltxt, k, ltxt) if ok else
                  '%s[%s] is not preceded by a range check against the length of that list (checks seen: '
                  'len of %s): an out-of-range number raises IndexError or addresses another pulse'
                  % (ltxt, k, sorted(set(seen_checks)) or 'none'))
    return n
