"""C06  Results do not depend on how the same conductor structure is described.

Decided (bookkeeping that must not depend on wire direction / order / ownership):
 D1 R-HALF   every half of a pulse uses its own direction, sign, ground sign, segment length in
             the matrix fill and in the near-field helper (same obligations as C02-D1 / C04-D1).
 D2 R-SIB    junction lines of the current report treat end 1 and end 2 alike (= C09-D1).
 D3 R-CACHE  per-object caches filled while evaluating a junction pulse (zins, zint) are computed
             from the object they are stored on, not from the load / object that happens to own
             the pulse.
 D4 R-SIB    _add_conn registers the connection symmetrically on both objects; pulse sign vector
             of a junction pulse is built from the sign of the connection index at both ends.
Not decided: numeric equality under reversal / reordering / splitting.
"""
import ast
from ..model import AnalysisError, walk_no_nested, norm, dotted
from ._half import half_obligations
from .C09 import check_junction_accumulate
from .C14 import run_cache_rule

FILL = 'mininec.Mininec.compute_impedance_matrix'
HELPER = 'mininec.Mininec.nf_helper'


def run(ctx, ck):
    m = ctx.model
    ck.rule('R-HALF.coherent-product', 'a product never combines quantities of different halves')
    ck.rule('R-HALF.potential-half', 'psi is given the scale of the half whose geometry it integrates')
    ck.rule('R-HALF.complete-term', 'each vector-potential term = potential*sign*direction*ground-sign of one half')
    ck.rule('R-HALF.difference-length', 'scalar-potential difference / segment length of its own half')
    ck.rule('R-SIB.junction-accumulate', 'junction current of each end = sum over conn[K] (both ends alike)')
    ck.rule('R-CACHE.owner-only', 'per-object cache computed from the object it is stored on')
    ck.rule('R-SIB.add-conn', '_add_conn registers both directions; junction pulse signs from both indices')

    cnt = half_obligations(ctx, ck, [FILL, HELPER], want_sums=(FILL, HELPER), want_divs=(FILL,))
    ck.info('half_counts', cnt)
    ck.floor('per-half products', cnt['products'], 14)
    ck.floor('vector-potential sums', cnt['sums'], 2)

    check_junction_accumulate(ctx, ck)

    sites, n = run_cache_rule(ctx, ck, only={'mininec.Insulation_Load.impedance|<obj>.zins',
                                             'mininec.Skin_Effect_Load.impedance|<obj>.zint'})
    ck.floor('per-object caches', n, 2)

    # D4
    f = m.func('mininec.Geobj._add_conn')
    adds = [c for c in walk_no_nested(f.node) if isinstance(c, ast.Call) and
            isinstance(c.func, ast.Attribute) and c.func.attr == 'add']
    recv = sorted(norm(c.func.value) for c in adds)
    ok = len(adds) == 2 and any(r.startswith('self.conn[') for r in recv) and \
        any(r.startswith('other.conn[') for r in recv)
    ck.ob('R-SIB.add-conn', f.qual + '|both-directions', ok, f.loc(),
          'connection added to %s' % recv)
    # sign: -1 exactly when the two joined ends have the same index (end1-end1 / end2-end2)
    sg = [s for s in walk_no_nested(f.node) if isinstance(s, ast.Assign) and isinstance(s.value, ast.IfExp)]
    ok = False
    why = 'sign definition not found'
    if len(sg) == 1:
        v = sg[0].value
        t = v.test
        if isinstance(t, ast.Compare) and len(t.ops) == 1:
            eq = isinstance(t.ops[0], ast.Eq)
            ne = isinstance(t.ops[0], ast.NotEq)
            a_, b_ = norm(v.body), norm(v.orelse)
            # -1 exactly when the two joined ends have the same index
            ok = (eq and (a_, b_) == ('-1', '1')) or (ne and (a_, b_) == ('1', '-1'))
        why = 'sign = %s' % norm(v)
    ck.ob('R-SIB.add-conn', f.qual + '|sign', ok, f.loc(), why)
    g = m.func('mininec.Geobj.compute_connections')
    gfl = ctx.flow(g)
    sgn = [s for s in walk_no_nested(g.node) if isinstance(s, ast.Assign) and
           isinstance(s.targets[0], ast.Name) and isinstance(s.value, ast.List) and len(s.value.elts) == 2
           and any('np.sign' in norm(e) for e in s.value.elts)]
    txt = sorted(norm(gfl.inline(s.value, gfl.node_id_of(s))) for s in sgn)
    ok = txt == ['[1, np.sign(self.idx_2)]', '[np.sign(self.idx_1), 1]']
    ck.ob('R-SIB.add-conn', g.qual + '|pulse-signs', ok, g.loc(),
          'junction pulse sign vectors: %s' % txt)
    from ._sym import check_ground_symmetry
    ck.rule('R-SYM.ground-halves', 'statements selecting one half of the ground flags select the other too')
    nsel, nst = check_ground_symmetry(ctx, ck)
    ck.floor('statements selecting a half of the ground flags', nst, 3)
    ck.undecided += ['numeric equality under wire reversal / reordering / splitting']
