"""C19  Report text faithfully carries the computed values.

Decided:
 D1 R-KIND int/float  integer conversions (%d, %2d ...) in report writers are fed integer-kind
            values only: a float-kind value (magnitude, phase, anything derived from np.abs,
            np.angle, a true division ...) printed with %d is truncated.
 D2 R-PREC  every float-kind value in a report writer is written by format_float, by `% e` /
            `%.NE` with N >= 6, by %g (6 significant digits) - never by a conversion with fewer
            than 6 significant digits or by a short fixed-point conversion.
 D3 R-DEP   the magnitude / phase columns of a row are computed from the same complex value as
            its real / imaginary columns; angles are converted with /pi*180 (shared with C18).
 D4 R-EXH   structural completeness: one geometry row per pulse of each object, one current row
            per own pulse (+ end lines, C09), one block per source, one line per loaded pulse;
            the report assembles all sections.
Not decided: digit accuracy of format_float over all magnitudes (value-dependent precision and
            truncation are computed at run time).
"""
import ast
import re
from ..model import AnalysisError, walk_no_nested, norm, dotted, parent, enclosing_stmt
from ..fmt import CONV_RE
from ..rules import loops_in, loop_reaches_on_all_paths, calls_in

FLOAT_FUNCS = ('np.abs', 'np.angle', 'np.sqrt', 'np.log', 'np.exp', 'abs', 'float', 'np.linalg.norm',
               'np.real', 'np.imag')
INT_FUNCS = ('len', 'int', 'round')


def float_attr_table(ctx):
    """{(class, attr)}: attributes assigned from a float-kind expression somewhere (fixpoint)"""
    m = ctx.model
    table = set()
    for _ in range(3):
        for f in m.all_funcs():
            if f.cls is None:
                continue
            for s in walk_no_nested(f.node):
                if isinstance(s, ast.Assign) and isinstance(s.targets[0], ast.Attribute) and \
                   isinstance(s.targets[0].value, ast.Name) and s.targets[0].value.id == 'self':
                    if float_kind(s.value, table, f.cls.name):
                        table.add((f.cls.name, s.targets[0].attr))
    return table


def float_kind(e, table, cls=None):
    """True when e is certainly float-valued"""
    if isinstance(e, ast.Constant):
        return isinstance(e.value, float)
    if isinstance(e, ast.Call):
        d = dotted(e.func) or ''
        if d in FLOAT_FUNCS:
            return True
        if d in INT_FUNCS:
            return False
        return False
    if isinstance(e, ast.BinOp):
        if isinstance(e.op, ast.Div):
            return True
        if isinstance(e.op, (ast.Add, ast.Sub, ast.Mult, ast.Pow)):
            return float_kind(e.left, table, cls) or float_kind(e.right, table, cls)
        return False
    if isinstance(e, ast.UnaryOp):
        return float_kind(e.operand, table, cls)
    if isinstance(e, ast.Attribute):
        if e.attr in ('real', 'imag'):
            return True
        if isinstance(e.value, ast.Name) and e.value.id == 'self' and cls is not None:
            return (cls, e.attr) in table
        return False
    return False


def conversions(func, flow=None):
    """[(spec, arg expr or None, Mod node)] for %-format applications with literal left side"""
    out = []
    for n in walk_no_nested(func.node):
        if isinstance(n, ast.BinOp) and isinstance(n.op, ast.Mod):
            left = n.left
            txt = None
            try:
                from ..model import const_value
                txt = const_value(left)
            except Exception:
                txt = None
            if not isinstance(txt, str):
                continue
            specs = [mo.group(0) for mo in CONV_RE.finditer(txt) if mo.group('type') != '%']
            from ..fmt import written_values
            r = n.right
            args = written_values(r, flow, flow.node_id_of(n) if flow is not None else None)
            if len(args) != len(specs):
                # bind what can be bound from the left (explicit leading values)
                head = []
                for a_ in args:
                    if isinstance(a_, (ast.Subscript, ast.Starred)) or (
                            isinstance(a_, ast.Name) and flow is not None and a_.id in flow.rd.names):
                        break
                    head.append(a_)
                args = (head + [None] * len(specs))[:len(specs)]
            for sp, a in zip(specs, args):
                out.append((sp, a, n))
    return out


def sig_digits(spec):
    """significant digits guaranteed by a conversion spec (None = not numeric / unknown)"""
    mo = CONV_RE.match(spec)
    t = mo.group('type')
    prec = mo.group('prec')
    if t in 'eE':
        return (int(prec) if prec is not None else 6) + 1
    if t in 'gG':
        return int(prec) if prec is not None else 6
    if t in 'fF':
        return ('fixed', int(prec) if prec is not None else 6)
    return None


def run(ctx, ck):
    m = ctx.model
    prog = ctx.program
    ck.rule('R-KIND.int-conversion', '%d is fed integer-kind values only')
    ck.rule('R-PREC.float-conversion', 'float values written with >= 6 significant digits / format_float')
    ck.rule('R-DEP.same-complex', 'real, imaginary, magnitude, phase columns come from one complex value')
    ck.rule('R-EXH.rows', 'one row/block per pulse, source, load; all report sections assembled')

    table = float_attr_table(ctx)
    ck.info('float_kind_attributes', sorted('%s.%s' % x for x in table)[:40])
    from ..rules import writer_functions
    writers = writer_functions(ctx, ('as_mininec',))
    ck.floor('report writer functions', len(writers), 25)
    n_int = n_flt = 0
    lowprec = {}
    for f in sorted(writers, key=lambda x: x.qual):
        cls = f.cls.name if f.cls else None
        from ..fmt import printed_values
        for sp, a, node in printed_values(f, ctx.flow(f)):
            if sp is None:
                continue
            t = sp[-1]
            if t in 'di':
                if a is None:
                    continue
                n_int += 1
                isf = float_kind(a, table, cls)
                ck.ob('R-KIND.int-conversion', '%s|%s<-%s' % (f.qual, sp, norm(a)), not isf, f.loc(node),
                      '%s of %s' % (sp, norm(a)) if not isf else
                      '%s truncates the float value %s (e.g. 0.54 is printed as 0)' % (sp, norm(a)))
            elif t in 'eEfFgG':
                n_flt += 1
                sd = sig_digits(sp)
                if isinstance(sd, tuple):
                    if sd[1] < 6:
                        lowprec.setdefault((f.qual, id(node)), [node, []])[1].append(
                            '%s: fixed-point, %d decimals' % (sp, sd[1]))
                    else:
                        lowprec.setdefault((f.qual, id(node)), [node, []])
                elif sd is not None and sd < 6:
                    lowprec.setdefault((f.qual, id(node)), [node, []])[1].append(
                        '%s: %d significant digits (relative error up to 5e-%d)' % (sp, sd, sd))
                else:
                    lowprec.setdefault((f.qual, id(node)), [node, []])
    for (q, _), (node, bad) in sorted(lowprec.items(), key=lambda kv: kv[0][0]):
        f = m.funcs[q]
        ck.ob('R-PREC.float-conversion', '%s|row-format' % q, not bad, f.loc(node),
              'row written with %s; the property asks for 5e-6 relative / 1e-6 absolute' % bad if bad else
              'explicit float conversions carry >= 6 significant digits')
    ck.floor('integer conversions in report writers', n_int, 8)
    ck.floor('explicit float conversions in report writers', n_flt, 2)

    # ---------------------------------------------------------------- D3
    # every printed row is obtained as a closed expression by the symbolic path walk (temporaries,
    # helpers, nested functions looked through, loop variables bound to the element of what is
    # iterated); the complex values whose parts appear in one row must be one and the same
    from ..symx import SymExec, line_exprs
    wq = {f.qual for f in writers if not f.name.startswith('_')}
    n_rows = 0
    n_polar = 0
    row_obs = {}
    pol_rows = []
    for f in sorted(writers, key=lambda x: x.qual):
        if f.name.startswith('_'):
            continue        # (private helpers are looked through from the writers that call them)
        try:
            paths = SymExec(ctx, f, depth=4, bind_loops=True, no_expand=wq).run()
        except AnalysisError as e_:
            raise AnalysisError('%s: %s' % (f.qual, e_))
        for p_ in paths:
            if p_.end == 'raise':
                continue
            for e_, st_ in line_exprs(p_):
                re_, im_, mag, ph = set(), set(), set(), set()
                for n_ in ast.walk(e_):
                    if isinstance(n_, ast.Attribute) and n_.attr == 'real':
                        re_.add(norm(n_.value))
                    elif isinstance(n_, ast.Attribute) and n_.attr == 'imag':
                        im_.add(norm(n_.value))
                    elif isinstance(n_, ast.Call) and (dotted(n_.func) or '') in ('np.abs', 'abs', 'np.absolute') and n_.args:
                        mag.add(norm(n_.args[0]))
                    elif isinstance(n_, ast.Call) and (dotted(n_.func) or '') in ('np.angle', 'cmath.phase') and n_.args:
                        ph.add(norm(n_.args[0]))
                if re_ and im_ and (mag or ph):
                    ok = len(re_) == 1 and re_ == im_ and (not mag or mag == re_) and (not ph or ph == re_) \
                        and bool(mag) and bool(ph)
                    key = '%s|row(%s)' % (f.qual, sorted(re_)[0][:60])
                    why = 'real/imag of %s; magnitude of %s; phase of %s' % (sorted(re_ | im_), sorted(mag), sorted(ph))
                    prev = row_obs.get(key)
                    if prev is None or (prev[0] and not ok):
                        row_obs[key] = (ok, f.loc(st_), why, 'row')
                elif mag and ph and not re_ and not im_:
                    ok = mag == ph
                    key = '%s|polar(%s)' % (f.qual, ','.join(sorted(mag | ph))[:80])
                    why = 'magnitude of %s; phase of %s' % (sorted(mag), sorted(ph))
                    # both polarisations of one row are printed from the same expression (theta <-> phi)
                    if any('theta' in t_ for t_ in mag) and any('phi' in t_ for t_ in mag):
                        swap = lambda t_: t_.replace('theta', '\0').replace('phi', 'theta').replace('\0', 'phi')
                        one_sided = sorted(t_ for t_ in mag if swap(t_) not in mag)
                        pol_rows.append((f, st_, one_sided, sorted(mag)))
                    prev = row_obs.get(key)
                    if prev is None or (prev[0] and not ok):
                        row_obs[key] = (ok, f.loc(st_), why, 'polar')
    for key, (ok, where, why, kind) in sorted(row_obs.items()):
        ck.ob('R-DEP.same-complex', key, ok, where, why)
        if kind == 'row':
            n_rows += 1
        else:
            n_polar += 1
    ck.rule('R-SIB.polarisations-alike', 'the theta and phi columns of one row are the same expression of their field (same scaling)')
    seen_pol = set()
    for f_, st_, one_sided, all_ in pol_rows:
        k_ = '%s|%s' % (f_.qual, ','.join(all_)[:70])
        if k_ in seen_pol:
            continue
        seen_pol.add(k_)
        ck.ob('R-SIB.polarisations-alike', k_, not one_sided, f_.loc(st_),
              'both polarisations are printed from the same expression: %s' % all_ if not one_sided else
              'the two polarisations of one row are scaled differently: %s has no counterpart for the other polarisation '
              'among %s' % (one_sided, all_))
    ck.floor('complex rows (real, imag, magnitude, phase)', n_rows, 3)
    ck.floor('polar rows (magnitude, phase per polarisation)', n_polar, 1)

    # ---------------------------------------------------------------- D4
    # decided on the symbolic walk as well: one iteration of every loop, loop variables bound to the
    # element (`self.loads[_k0]`), comprehension elements as _each(...), helper lists expanded
    import re as _re
    from ..symx import canon_k, row_values
    _paths_cache = {}

    def wpaths(q):
        if q not in _paths_cache:
            f_ = m.func(q)
            _paths_cache[q] = [p_ for p_ in SymExec(ctx, f_, depth=4, bind_loops=True, no_expand=wq).run() if p_.end != 'raise']
        return _paths_cache[q]

    def calls_on(p_, call_attr, recv_re):
        n_ = 0
        for e_, st_ in line_exprs(p_):
            for c_ in ast.walk(e_):
                if isinstance(c_, ast.Call) and isinstance(c_.func, ast.Attribute) and c_.func.attr == call_attr \
                   and _re.search(recv_re, norm(c_.func.value)):
                    n_ += 1
        return n_

    def one_call_per_element(q, iter_re, call_attr):
        """on every path: one <element>.<call_attr>() line per element of the collection"""
        f_ = m.func(q)
        recv_re = iter_re + r'\[_k\d+\](\[1\])?$'
        bad = None
        n_entered = 0
        strip = lambda t_: _re.sub(r'^enumerate\((.*)\)$', r'\1', t_)
        from ..lines import opaque_text
        for p_ in wpaths(q):
            if opaque_text(p_):
                raise AnalysisError('%s: the report text comes from %s, which is not followed' % (q, opaque_text(p_)))
            entered = [t_ for k_, t_ in p_.conds if k_ == 'loop' and _re.search(iter_re + '$', strip(t_))]
            skipped = [t_ for k_, t_ in p_.conds if k_ == 'loop-skipped' and _re.search(iter_re + '$', strip(t_))]
            comp = [it_ for e_, st_, it_ in line_exprs(p_, with_iter=True)
                    if it_ is not None and _re.search(iter_re + '$', strip(norm(it_)))]
            if entered and skipped:
                continue            # the same collection empty and not empty: not a real path
            n_ = calls_on(p_, call_attr, recv_re)
            want_ = 1 if (entered or comp) else 0
            n_entered += want_
            if n_ != want_ and bad is None:
                bad = (n_, want_, [c_ for c_ in p_.conds][-3:])
        ok = bad is None and n_entered >= 1
        ck.ob('R-EXH.rows', '%s|for %s' % (q, iter_re.replace('\\', '')), ok, f_.loc(),
              'one %s() per element on each of %d paths' % (call_attr, len(wpaths(q))) if ok else
              '%s() written %s times per element instead of %s on the path %s' % ((call_attr,) + (bad or (0, 1, 'none'))))
    one_call_per_element('mininec.Mininec.wires_as_mininec', r'\.pulse_iter\(\)', 'as_mininec')
    one_call_per_element('mininec.Mininec.sources_as_mininec', r'self\.sources', 'as_mininec_short')
    one_call_per_element('mininec.Mininec.source_data_as_mininec', r'self\.sources', 'as_mininec')
    one_call_per_element('mininec.Mininec.loads_as_mininec', r'self\.loads', 'as_mininec')
    one_call_per_element('mininec.Mininec.environment_as_mininec', r'self\.media', 'as_mininec')
    # a load prints one line per attached pulse
    q = 'mininec._Load.as_mininec'
    bad = None
    for p_ in wpaths(q):
        ent = any(k_ == 'loop' and t_ == 'self.pulses' for k_, t_ in p_.conds)
        skp = any(k_ == 'loop-skipped' and t_ == 'self.pulses' for k_, t_ in p_.conds)
        n_ = sum(1 for e_, st_ in line_exprs(p_) if 'self.pulses[_k' in norm(e_))
        if n_ != (0 if (skp and not ent) else 1):
            bad = (n_, p_.conds[-2:])
    ck.ob('R-EXH.rows', q + '|for self.pulses', bad is None, m.func(q).loc(),
          'one line per attached pulse' if bad is None else 'lines per pulse: %s on path %s' % bad)
    # geometry blocks: outer loops over all objects (statement or comprehension form, helpers included)
    from ..rules import self_closure

    _norm0 = norm

    def n_iterations_of(q, iter_txt):
        n_ = 0
        for g_ in self_closure(ctx, m.func(q)):
            if g_.qual in wq and g_.qual != q:
                continue
            # a local that only ever names the collection (geo = self.geo) counts as the collection
            alias_ = {}
            for a_ in walk_no_nested(g_.node):
                if isinstance(a_, ast.Assign) and len(a_.targets) == 1 and isinstance(a_.targets[0], ast.Name):
                    alias_.setdefault(a_.targets[0].id, []).append(_norm0(a_.value))
            alias_ = {k_ for k_, v_ in alias_.items() if v_ == [iter_txt]}

            def normA(e_):
                t_ = _norm0(e_)
                return iter_txt if t_ in alias_ else t_
            for x_ in walk_no_nested(g_.node):
                if isinstance(x_, ast.For) and normA(x_.iter) == iter_txt:
                    n_ += 1
                elif isinstance(x_, ast.comprehension) and normA(x_.iter) == iter_txt:
                    n_ += 1
                elif isinstance(x_, ast.Call) and (dotted(x_.func) or '') in ('map', 'starmap', 'itertools.starmap') and \
                        len(x_.args) == 2 and normA(x_.args[1]) == iter_txt:
                    n_ += 1         # map(f, X): one f(x) per element
        return n_
    f = m.func('mininec.Mininec.wires_as_mininec')
    ck.ob('R-EXH.rows', f.qual + '|objects', n_iterations_of(f.qual, 'self.geo') == 2, f.loc(),
          'object table and pulse table iterate all of self.geo')
    f = m.func('mininec.Mininec.currents_as_mininec')
    ck.ob('R-EXH.rows', f.qual + '|objects', n_iterations_of(f.qual, 'self.geo') == 1, f.loc(),
          'current table iterates all of self.geo')
    # counts announced
    for q, label, want_ in (('mininec.Mininec.sources_as_mininec', 'NO. OF SOURCES', 'len(self.sources)'),
                            ('mininec.Mininec.wires_as_mininec', 'NO. OF GEO-OBJECTS', 'len(self.geo)'),
                            ('mininec.Mininec.loads_as_mininec', 'NUMBER OF LOADS', 'sum(_each(len(self.loads[_k0].pulses), self.loads))')):
        f = m.func(q)
        got = set()
        npaths = 0
        for p_ in wpaths(q):
            npaths += 1
            hit = [e_ for e_, st_ in line_exprs(p_)
                   if any(isinstance(c_, ast.Constant) and isinstance(c_.value, str) and label in c_.value for c_ in ast.walk(e_))]
            # the announced number is exactly the count: a value of the row, not part of a larger expression
            got.add(tuple(want_ in [canon_k(norm(v_)) for v_ in (row_values(h_) or [])] for h_ in hit))
        ok = got == {(True,)}
        ck.ob('R-EXH.rows', q + '|count', ok, f.loc(), 'line "%s" announces %s on all %d paths' % (label, want_, npaths)
              if ok else 'line "%s" does not announce %s on every path: %s' % (label, want_, sorted(got)))
    # sections of the report
    f = m.func('mininec.Mininec.as_mininec')
    secs = ['header_as_mininec', 'frequency_as_mininec', 'environment_as_mininec', 'wires_as_mininec',
            'sources_as_mininec', 'loads_as_mininec', 'source_data_as_mininec', 'currents_as_mininec',
            'fields_as_mininec']
    for sname in secs:
        counts = sorted({calls_on(p_, sname, r'^self$') for p_ in wpaths(f.qual)})
        ck.ob('R-EXH.rows', '%s|section %s' % (f.qual, sname), counts == [1], f.loc(),
              'section written exactly once on every path' if counts == [1] else
              'section written %s times depending on the path' % counts)
    # values the writers take from a cache kept on the model: the cache must not outlive the solution it was
    # computed from (rule shared with C14; only the caches in the closure of the report writers)
    from .C14 import run_cache_rule
    from ..cache import find_memo_sites
    ck.rule('R-CACHE.invalidate', 'a cache the report reads is dropped by every function that assigns the state it was computed from')
    wclosure = prog.closure(list(writers), edge_filter=lambda e: e.kind in ('call', 'getter'))
    keys_ = {s_.key for s_ in find_memo_sites(m, ctx) if s_.func.qual in wclosure and s_.owner == 'self' and
             s_.kind in ('attr-none', 'getattr-none')}
    if keys_:
        run_cache_rule(ctx, ck, only=keys_)
    ck.info('report_caches', sorted(keys_))
    # the source echo "PULSE NO., VOLTAGE MAGNITUDE, PHASE (DEGREES)": the value under the label is of degree kind
    # (rule shared with C18, the report line only)
    ck.rule('R-KIND.degrees', 'the phase printed under PHASE (DEGREES) is in degrees')
    from .C18 import check_source_units
    check_source_units(ctx, ck, with_basic=False)
    # the source block: every labelled line prints that quantity of the source the block belongs to
    ck.rule('R-DEP.labelled-value', 'a line labelled VOLTAGE / CURRENT / IMPEDANCE / POWER prints that quantity of its own source')
    from ..symx import unwrap_formatted, leading_literal, fold_text
    src_w = m.func('mininec.Excitation.as_mininec')
    labels = {'VOLTAGE': ['self.idx + 1', 'self.voltage.real', 'self.voltage.imag'],
              'CURRENT': ['self.current.real', 'self.current.imag'],
              'IMPEDANCE': ['self.impedance.real', 'self.impedance.imag'],
              'POWER': ['self.power']}
    got_lab = {}
    for p_ in SymExec(ctx, src_w, depth=4, bind_loops=True, no_expand=wq - {src_w.qual}).run():
        if p_.end == 'raise':
            continue
        for e_, st_ in line_exprs(p_):
            txt_ = ' '.join(c_.value for c_ in ast.walk(e_) if isinstance(c_, ast.Constant) and isinstance(c_.value, str))
            lab = [l_ for l_ in labels if l_ in txt_]
            if len(lab) != 1:
                continue
            vals_ = []
            for v_ in (row_values(e_) or []):
                u_ = unwrap_formatted(v_)
                try:
                    if isinstance(fold_text(u_), str):
                        continue        # padding
                except ValueError:
                    pass
                # a value read through a small property that is not itself one of the named quantities
                # (`self.pulse_no` returning `self.idx + 1`) is the property's expression
                for _i in range(3):
                    if norm(u_) in labels[lab[0]] or not (isinstance(u_, ast.Attribute) and norm(u_.value) == 'self'):
                        break
                    g_ = m.resolve_method(src_w.cls.name, u_.attr)
                    b_ = [x_ for x_ in g_.body()] if g_ is not None and g_.kind == 'property' else []
                    b_ = [x_ for x_ in b_ if not (isinstance(x_, ast.Expr) and isinstance(x_.value, ast.Constant))]
                    if len(b_) == 1 and isinstance(b_[0], ast.Return) and b_[0].value is not None:
                        u_ = b_[0].value
                    else:
                        break
                vals_.append(canon_k(norm(u_)))
            prev = got_lab.get(lab[0])
            if prev is None or prev[0] == labels[lab[0]]:
                got_lab[lab[0]] = (vals_, src_w.loc(st_))
    for lab, want_ in sorted(labels.items()):
        g_ = got_lab.get(lab)
        ck.ob('R-DEP.labelled-value', '%s|%s' % (src_w.qual, lab), g_ is not None and g_[0] == want_,
              g_[1] if g_ else src_w.loc(),
              'the %s line prints %s' % (lab, want_) if g_ is not None and g_[0] == want_ else
              'the %s line prints %s, expected %s of the source itself' % (lab, g_[0] if g_ else 'nothing', want_))
    # format_float: characters may only be cut from a text that has a decimal point (cutting an
    # integer text drops significant digits: 227364204 -> 22736420)
    ck.rule('R-FMT.truncate-guard', 'format_float only truncates texts that contain a decimal point')
    ff = m.func('util.format_float')
    from ..cfg import if_chain_preds
    cuts = []
    # format_float and the functions of its module it refers to by name (called, or handed to map / partial)
    todo_, seen_ = [ff], {ff.qual}
    while todo_:
        g0 = todo_.pop()
        for n_ in ast.walk(g0.node):
            if isinstance(n_, ast.Name) and isinstance(n_.ctx, ast.Load):
                h_ = m.funcs.get('%s.%s' % (ff.module.name, n_.id))
                if h_ is not None and h_.qual not in seen_:
                    seen_.add(h_.qual)
                    todo_.append(h_)
    for q_ in sorted(seen_):
        g_ = m.funcs[q_]
        for x_ in walk_no_nested(g_.node):
            if isinstance(x_, ast.Subscript) and isinstance(x_.slice, ast.Slice) and x_.slice.upper is not None \
               and isinstance(x_.value, ast.Name) and isinstance(x_.ctx, ast.Load):
                cuts.append((g_, x_))
    ck.floor('truncating slices in format_float', len(cuts), 1)
    from ..cfg import must_conds

    def point_guarded(g_, node_, v, seen=()):
        """every way to reach node_ in g_ has passed `'.' in v` (tested in g_ itself - also by an early
        return - or, v being a parameter of a private helper, at every call site of the helper)"""
        gfl_ = ctx.flow(g_)
        facts = set(must_conds(gfl_.cfg).get(gfl_.node_id_of(enclosing_stmt(node_)), set()))
        ch_, pa_ = node_, parent(node_)
        while pa_ is not None and not isinstance(pa_, ast.stmt):
            if isinstance(pa_, ast.IfExp) and ch_ is not pa_.test:
                facts.add((norm(pa_.test), ch_ is pa_.body))
            ch_, pa_ = pa_, parent(pa_)
        if ("'.' in %s" % v, True) in facts or ("'.' not in %s" % v, False) in facts:
            return True, sorted(t if b else 'not (%s)' % t for t, b in facts)
        shown = sorted(t if b else 'not (%s)' % t for t, b in facts)
        if v in g_.params and g_.name.startswith('_') and g_.qual not in seen:
            # the parameter must still hold the caller's value at the cut
            redefined = any(isinstance(n_, ast.Name) and n_.id == v and isinstance(n_.ctx, ast.Store) and
                            n_.lineno < node_.lineno for n_ in ast.walk(g_.node))
            sites = [e for es in prog.edges.values() for e in es if e.kind == 'call' and e.callee is g_]
            if sites and not redefined:
                pos = g_.params.index(v)
                oks = []
                for e in sites:
                    call = e.node
                    arg = call.args[pos] if isinstance(call, ast.Call) and pos < len(call.args) else None
                    if not isinstance(arg, ast.Name):
                        return False, shown
                    oks.append(point_guarded(e.caller, call, arg.id, seen + (g_.qual,))[0])
                if all(oks):
                    return True, shown + ['(tested at all %d call sites)' % len(sites)]
        return False, shown
    for g_, c_ in cuts:
        v = c_.value.id
        ok, g = point_guarded(g_, c_, v)
        ck.ob('R-FMT.truncate-guard', '%s|%s' % (ff.qual, norm(c_)), ok, g_.loc(c_),
              'truncation %s under guards %s' % (norm(c_), g) if ok else
              'truncation %s is not guarded by a decimal-point test (guards %s): integers of more than '
              '8 digits lose trailing digits' % (norm(c_), g))
    # format_float is element-wise: one text per element of its argument (the symbolic walk relies on it)
    ck.rule('R-EXH.elementwise', 'format_float returns one formatted text per element of its argument')
    from ..symx import closed_returns, ELEMENTWISE
    for name_ in sorted(ELEMENTWISE):
        ffn = m.func('util.' + name_)
        par = ffn.params[0]
        shapes_ = set()
        for conds_, ret_ in closed_returns(ctx, ffn, private_only=True):
            ent = [t_ for k_, t_ in conds_ if k_ == 'loop' and t_ == par]
            skp = [t_ for k_, t_ in conds_ if k_ == 'loop-skipped' and t_ == par]
            v_ = ret_
            if isinstance(v_, ast.Call) and isinstance(v_.func, ast.Name) and v_.func.id in ('tuple', 'list') and len(v_.args) == 1:
                v_ = v_.args[0]
            if isinstance(v_, (ast.Tuple, ast.List)) and not any(isinstance(x_, ast.Starred) for x_ in v_.elts):
                # one walk through the loop body = one element; no iteration = no element
                okr = len(v_.elts) == (1 if ent else 0) and (bool(ent) != bool(skp))
            else:
                from ..symx import _each_of
                ea = _each_of(v_)
                okr = ea is not None and norm(ea[1]) == par
            shapes_.add(okr)
        ck.ob('R-EXH.elementwise', ffn.qual, shapes_ == {True}, ffn.loc(),
              'returns tuple(one text for each element of %s) on every path' % par if shapes_ == {True} else
              'does not return exactly one text per element on every path')
    # a value printed for one pulse is computed for that pulse
    ck.rule('R-CACHE.local-memo', 'a local memo dictionary of a report writer is keyed by everything its value is computed from')
    from ..rules import local_memo_hazards
    n_lm = 0
    for g_ in writers:
        for st_, k_, loose_ in local_memo_hazards(g_):
            n_lm += 1
            ck.ob('R-CACHE.local-memo', '%s|%s' % (g_.qual, norm(st_.targets[0])), False, g_.loc(st_),
                  'the value stored under `%s` is computed from `%s` itself (%s), not only from the key: the entry of the first '
                  'element is printed for every later element with the same key' % (k_, loose_[0], norm(st_.value)[:60]))
    ck.ob('R-CACHE.local-memo', 'report writers', True, 'mininec', 'local memo dictionaries keyed too coarsely in the report writers: %d' % n_lm)
    ck.undecided += ['format_float digit accuracy over all magnitudes (run-time precision/truncation)']
