M = 'mininec.Mininec.'
F = 'mininec.Far_Field_Pattern.'
MUTANTS = [
    ('k9 from requested power', [(M + 'compute_far_field', "k9   = .016678 / self.power", "k9   = .016678 / self.ff_power")], ['dbi-normalised']),
    ('k9 without power', [(M + 'compute_far_field', "k9   = .016678 / self.power", "k9   = .016678")], ['dbi-normalised', 'k9']),
    ('k9 literal slip', [(M + 'compute_far_field', ".016678 / self.power", ".016768 / self.power")], ['k9']),
    ('distance applied before dB conversion',
     [(M + 'compute_far_field', "h12 = np.sum (gain * rvec.imag, axis = 2) * self.g0 * -1j",
       "h12 = np.sum (gain * rvec.imag, axis = 2) * self.g0 * -1j / (dist or 1)")], ['dbi-normalised', 'distance']),
    ('only theta divided by distance', [(M + 'compute_far_field', "            x34 /= rd\n", "")], ['distance']),
    ('phi divided by squared distance', [(M + 'compute_far_field', "x34 /= rd", "x34 /= rd * rd")], ['distance-siblings']),
    ('ratio inverted', [(M + 'compute_far_field', "rat = self.ff_power / self.power", "rat = self.power / self.ff_power")], ['power-ratio']),
    ('ratio not under sqrt', [(F + '__init__', "self.pwr_ratio = np.sqrt (pwr_ratio)", "self.pwr_ratio = pwr_ratio")], ['vm-scaling']),
    ('phi not scaled', [(F + '__init__', "self.e_phi     = e_phi   * self.pwr_ratio", "self.e_phi     = e_phi")], ['vm-scaling']),
    ('gain scaled by ratio', [(F + '__init__', "self.gain      = gain", "self.gain      = gain * pwr_ratio")], ['gain-unscaled']),
    ('total is vertical only', [(M + 'compute_far_field', "t3 = t1 + t2", "t3 = t1")], ['total']),
    ('total is difference', [(M + 'compute_far_field', "t3 = t1 + t2", "t3 = t1 - t2")], ['total']),
    ('horizontal without imag part', [(M + 'compute_far_field', "t2 = k9 * (x34.real ** 2 + x34.imag ** 2)", "t2 = k9 * (x34.real ** 2)")], ['gain-form']),
    ('horizontal from vertical field', [(M + 'compute_far_field', "t2 = k9 * (x34.real ** 2 + x34.imag ** 2)", "t2 = k9 * (h12.real ** 2 + h12.imag ** 2)")], ['same-normalisation', 'fields-match']),
    ('natural log', [(M + 'compute_far_field', "np.log (t123 [cond]) / np.log (10) * 10", "np.log (t123 [cond]) * 10")], ['10log10']),
    ('20 log', [(M + 'compute_far_field', "np.log (t123 [cond]) / np.log (10) * 10", "np.log (t123 [cond]) / np.log (10) * 20")], ['10log10']),
    ('image contribution skipped for one branch',
     [(M + 'compute_far_field', "                    gain [:, a_i, :] += np.sum \\\n                        (kv2g.T * pv.dirvec.T * bs, axis = (2, 3))",
       "                    if k > 0:\n                        gain [:, a_i, :] += np.sum \\\n                            (kv2g.T * pv.dirvec.T * bs, axis = (2, 3))")], ['accumulate']),
    ('row filter in dB table',
     [(F + 'db_as_mininec', "            r.append \\\n                ( ('%s     ' * 4 + '%s')", "            if t < -900:\n                continue\n            r.append \\\n                ( ('%s     ' * 4 + '%s')")], ['rows-per-entry']),
    ('stack order swapped', [(M + 'compute_far_field', "np.array ([t1.T, t2.T, t3.T]).T", "np.array ([t1.T, t3.T, t2.T]).T")], ['total']),
    ('default power ignores request', [(M + 'compute_far_field', "self.ff_power = pwr or self.power", "self.ff_power = self.power")], ['ff_power-default']),
]
MUTANTS += [
    ('theta vector y component sign', [(M + 'compute_far_field', ",  zcs_m.imag * acs_m.imag - 1j * (zcs_m.real * acs_m.imag)", ",  zcs_m.imag * acs_m.imag + 1j * (zcs_m.real * acs_m.imag)")], ['triad']),
    ('radial vector x/y swapped', [(M + 'compute_far_field', "[ -zcs_m.imag * acs_m.real + 1j * (zcs_m.real * acs_m.real)", "[ -zcs_m.imag * acs_m.imag + 1j * (zcs_m.real * acs_m.real)")], ['triad']),
    ('phi vector not orthogonal', [(M + 'compute_far_field', "vv  = np.array ([acs_m.imag, acs_m.real]).T", "vv  = np.array ([acs_m.real, acs_m.imag]).T")], ['triad']),
    ('azimuth phasor conjugated', [(M + 'compute_far_field', "acs  = np.e ** (-1j * azimuth_angle.angle_rad ())", "acs  = np.e ** (1j * azimuth_angle.angle_rad ())")], ['triad']),
    ('phase uses theta vector', [(M + 'compute_far_field', "(pv.point * kvec * rvrp.real, axis = 2)", "(pv.point * kvec * rvrp.imag, axis = 2)")], ['triad', 'phase']),
]
REFACTORS = [
    ('log10', [(M + 'compute_far_field', "np.log (t123 [cond]) / np.log (10) * 10", "10 * np.log10 (t123 [cond])")]),
    ('ratio inline', [(M + 'compute_far_field', "Far_Field_Pattern (azi_d, zen_d, p123, h12.T, x34.T, rat)", "Far_Field_Pattern (azi_d, zen_d, p123, h12.T, x34.T, self.ff_power / self.power)")]),
    ('division as assignment', [(M + 'compute_far_field', "            h12 /= rd\n            x34 /= rd", "            h12 = h12 / rd\n            x34 = x34 / rd")]),
    ('total reversed', [(M + 'compute_far_field', "t3 = t1 + t2", "t3 = t2 + t1")]),
    ('sqrt as power', [(F + '__init__', "np.sqrt (pwr_ratio)", "pwr_ratio ** 0.5")]),
    ('fields scaled without attribute', [(F + '__init__', "self.e_theta   = e_theta * self.pwr_ratio\n        self.e_phi     = e_phi   * self.pwr_ratio", "s = np.sqrt (pwr_ratio)\n        self.e_theta   = s * e_theta\n        self.e_phi     = s * e_phi")]),
]
