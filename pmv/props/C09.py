"""C09  Kirchhoff current law and end conditions in the current report.

Decided:
 D1 R-SIB  currents_as_mininec: for wire end K = 0 and K = 1 the junction current is the
           accumulation (+= / sum) of  sign * self.current[pulse]  over conn[K].pulse_iter();
           both ends are treated alike (same guards, same zero row, same row formatting).
 D2        an unconnected, ungrounded end prints the literal zero row; J/E choice by emptiness of
           conn[K]; Connected_Geobj.pulse_iter yields (end_segs[idx] of the owning object, sign)
           for every entry of the connection list; interior rows: one per own pulse.
Not decided: that _add_conn gives the right sign for every topology (runtime graph).
"""
import ast
from ..model import AnalysisError, walk_no_nested, norm, dotted, parent
from ..dataflow import product_of, sum_terms
from ..rules import loops_in, loop_reaches_on_all_paths

CUR = 'mininec.Mininec.currents_as_mininec'


def junction_blocks(ctx):
    """[(K, for-loop, accumulator name)] for loops over <obj>.conn[K].pulse_iter()"""
    f = ctx.func(CUR)
    out = []
    for l in loops_in(f.node):
        if not isinstance(l, ast.For):
            continue
        it = l.iter
        if isinstance(it, ast.Call) and isinstance(it.func, ast.Attribute) and it.func.attr == 'pulse_iter' \
           and isinstance(it.func.value, ast.Subscript) and isinstance(it.func.value.value, ast.Attribute) \
           and it.func.value.value.attr == 'conn' and isinstance(it.func.value.slice, ast.Constant):
            out.append((it.func.value.slice.value, l))
    return f, out


def check_junction_accumulate(ctx, ck, rule='R-SIB.junction-accumulate'):
    f, blocks = junction_blocks(ctx)
    fl = ctx.flow(f)
    ks = sorted(k for k, l in blocks)
    if ks != [0, 1]:
        raise AnalysisError('currents_as_mininec: expected junction loops for conn[0] and conn[1], '
                            'found %s' % ks)
    feats = {}
    for K, l in blocks:
        tg = l.target
        if not (isinstance(tg, ast.Tuple) and len(tg.elts) == 2 and
                all(isinstance(e, ast.Name) for e in tg.elts)):
            raise AnalysisError('junction loop target is not (pulse, sign)')
        pv, sv = tg.elts[0].id, tg.elts[1].id
        upd = [s for s in walk_no_nested(l) if isinstance(s, (ast.Assign, ast.AugAssign))]
        upd = [s for s in upd if any(isinstance(x, ast.Attribute) and dotted(x) == 'self.current'
                                     for x in ast.walk(s.value))]
        ok, why, op = False, 'no update of the junction current in the loop body', None
        if len(upd) == 1:
            s = upd[0]
            if isinstance(s, ast.AugAssign) and isinstance(s.op, ast.Add) and isinstance(s.target, ast.Name):
                acc, val, op = s.target.id, s.value, '+='
            elif isinstance(s, ast.Assign) and isinstance(s.targets[0], ast.Name):
                acc = s.targets[0].id
                terms = sum_terms(s.value)
                prev = [t for sg, t in terms if sg == 1 and isinstance(t, ast.Name) and t.id == acc]
                rest = [t for sg, t in terms if not (isinstance(t, ast.Name) and t.id == acc)]
                if prev and len(rest) == 1:
                    val, op = rest[0], '+='
                else:
                    val, op = s.value, '='
            else:
                acc, val, op = None, s.value, '?'
            pr = product_of(val)
            nn, dd = pr.texts()
            form_ok = nn == sorted([sv, 'self.current[%s]' % pv]) and not dd and pr.coef == 1
            ok = (op == '+=') and form_ok
            if op != '+=':
                why = ('junction current of end %d is overwritten (`%s = ...`) for every connected '
                       'wire instead of accumulated: only the last pulse is reported' % (K + 1, acc))
            elif not form_ok:
                why = 'accumulated term is %s, expected sign * self.current[pulse]' % norm(val)
            else:
                why = 'end %d: %s += %s * self.current[%s] over conn[%d]' % (K + 1, acc, sv, pv, K)
            # initial value 0 before the loop
            if ok and acc:
                body_ids = fl.cfg.loops[fl.cfg.node_of(l)][0]
                ds = [d for d in fl.def_exprs(acc, fl.cfg.node_of(l)) if d[0] == 'assign'
                      and d[2] not in body_ids]
                zero = [d for d in ds if norm(d[1]) in ('0 + 0j', '0j', '0', '0.0', '0 + 0.0j')]
                if not ds or len(zero) != len(ds):
                    ok, why = False, 'accumulator %s does not start at zero' % acc
        elif len(upd) > 1:
            why = '%d statements update the junction current' % len(upd)
        ck.ob(rule, '%s|conn[%d]' % (CUR, K), ok, f.loc(upd[0] if upd else l), why)
        # features for the sibling comparison
        guards = []
        child = l
        p = parent(l)
        while p is not None and p is not f.node:
            if isinstance(p, ast.If):
                branch = 'then' if any(child is x for x in p.body) else 'else'
                guards.append((norm(p.test).replace('[%d]' % K, '[K]'), branch))
            child = p
            p = parent(p)
        # statements after the loop in the same block: row formatting
        blk = parent(l)
        body = blk.orelse if (isinstance(blk, ast.If) and l in blk.orelse) else getattr(blk, 'body', [])
        idx = body.index(l) if l in body else -1
        after = [norm(s).replace('[%d]' % K, '[K]') for s in body[idx + 1:]] if idx >= 0 else []
        feats[K] = dict(guards=guards, after=after, op=op)
        # the zero row of the unconnected end
        zero_rows = []
        for g in ast.walk(f.node):
            if isinstance(g, ast.If) and norm(g.test) == 'not geobj.conn[%d]' % K or \
               (isinstance(g, ast.If) and isinstance(g.test, ast.UnaryOp) and
                    norm(g.test.operand).endswith('.conn[%d]' % K)):
                zero_rows.append([norm(fl.inline(s.value, fl.node_id_of(s))) if isinstance(s, ast.Expr)
                                  else norm(s) for s in g.body])
        feats[K]['zero'] = zero_rows
    return f, feats


def run(ctx, ck):
    m = ctx.model
    ck.rule('R-SIB.junction-accumulate', 'junction current of each end = sum of sign*current over conn[K]')
    ck.rule('R-SIB.ends-alike', 'end 1 and end 2 blocks agree in guards, zero row and row formatting')
    ck.rule('R-EXH.pulse-iter', 'Connected_Geobj.pulse_iter yields (end_segs[idx], sign) for every entry')
    ck.rule('R-EXH.rows', 'one interior row per own pulse, 1-based number')

    f, feats = check_junction_accumulate(ctx, ck)
    a, b = feats[0], feats[1]
    for k in ('guards', 'after', 'zero'):
        ck.ob('R-SIB.ends-alike', '%s|%s' % (CUR, k), a[k] == b[k] and bool(a[k]), f.loc(),
              'end blocks agree on %s' % k if a[k] == b[k] else
              'end 1: %s / end 2: %s' % (str(a[k])[:80], str(b[k])[:80]))
    # zero row literal
    for K in (0, 1):
        z = feats[K]['zero']
        ok = len(z) == 1 and len(z[0]) == 1 and "'E '" in z[0][0] and "['0'] * 4" in z[0][0]
        ck.ob('R-SIB.ends-alike', '%s|zero-row|%d' % (CUR, K), ok, f.loc(),
              'unconnected end prints E and four literal zeros' if ok else 'zero row is %s' % z)
    # ground guard: J/E lines only for ends that are not grounded
    for K in (0, 1):
        g = [x for x in feats[K]['guards'] if 'is_ground[K]' in x[0]]
        ck.ob('R-SIB.ends-alike', '%s|ground-guard|%d' % (CUR, K), len(g) == 1 and g[0][0].startswith('not '),
              f.loc(), 'junction/end line only for an end that is not grounded')

    # pulse_iter
    g = m.func('mininec.Connected_Geobj.pulse_iter')
    ys = [n for n in walk_no_nested(g.node) if isinstance(n, ast.Yield)]
    ok = False
    why = 'expected a single yield inside a loop over self._iter()'
    ls = [l for l in loops_in(g.node) if isinstance(l, ast.For)]
    if len(ys) == 1 and len(ls) == 1 and norm(ls[0].iter) == 'self._iter()' and \
       isinstance(ls[0].target, ast.Tuple) and len(ls[0].target.elts) == 4:
        t = [e.id if isinstance(e, ast.Name) else '?' for e in ls[0].target.elts]
        y = ys[0].value
        ok = isinstance(y, ast.Tuple) and len(y.elts) == 2 and \
            norm(y.elts[0]) == '%s.end_segs[%s]' % (t[1], t[2]) and norm(y.elts[1]) == t[3]
        why = 'yields %s for (geobj, owner, idx, sign) = %s' % (norm(y), t)
        mn, mx = loop_reaches_on_all_paths(ctx.flow(g), ls[0], lambda n: n.stmt is not None and any(
            isinstance(x, ast.Yield) for x in ast.walk(n.stmt)))
        ok = ok and (mn, mx) == (1, 1)
    ck.ob('R-EXH.pulse-iter', g.qual, ok, g.loc(), why)
    it = m.func('mininec.Connected_Geobj._iter')
    ls = [l for l in loops_in(it.node) if isinstance(l, ast.For)]
    ok = len(ls) == 1 and 'self.list' in norm(ls[0].iter)
    if ok:
        mn, mx = loop_reaches_on_all_paths(ctx.flow(it), ls[0], lambda n: n.stmt is not None and any(
            isinstance(x, ast.Yield) for x in ast.walk(n.stmt)))
        ok = (mn, mx) == (1, 1)
    ck.ob('R-EXH.pulse-iter', it.qual, ok, it.loc(), '_iter yields every entry of self.list once')
    add = m.func('mininec.Connected_Geobj.add')
    apps = [c for c in walk_no_nested(add.node) if isinstance(c, ast.Call) and
            isinstance(c.func, ast.Attribute) and c.func.attr == 'append' and dotted(c.func.value) == 'self.list']
    ok = len(apps) == 1 and isinstance(apps[0].args[0], ast.Tuple) and len(apps[0].args[0].elts) == 4
    if ok:
        fl = ctx.flow(add)
        ok = fl.cfg.must_pass(fl.cfg.exit.id, {fl.node_id_of(apps[0])})
    ck.ob('R-EXH.pulse-iter', add.qual, ok, add.loc(), 'add() appends one 4-tuple to self.list on every path')

    # interior rows
    fl = ctx.flow(f)
    rows = [l for l in loops_in(f.node) if isinstance(l, ast.For) and 'pulse_idx_iter' in norm(l.iter)]
    ck.floor('interior row loops', len(rows), 1)
    for l in rows:
        mn, mx = loop_reaches_on_all_paths(fl, l, lambda n: n.kind == 'stmt' and isinstance(n.stmt, ast.Expr)
                                           and isinstance(n.stmt.value, ast.Call) and
                                           isinstance(n.stmt.value.func, ast.Attribute) and
                                           n.stmt.value.func.attr == 'append')
        kw = [k for k in l.iter.keywords if k.arg == 'yield_ends']
        own = len(kw) == 1 and isinstance(kw[0].value, ast.Constant) and kw[0].value.value is False
        lv = l.target.id if isinstance(l.target, ast.Name) else '?'
        txt = ' '.join(norm(s) for s in l.body)
        uses = ('self.current[%s]' % lv) in txt and ('%s + 1' % lv) in txt
        ck.ob('R-EXH.rows', CUR + '|interior', (mn, mx) == (1, 1) and own and uses, f.loc(l),
              'one row per own pulse (yield_ends=False), number k+1, value self.current[k]')
    from ._endidx import check_end_index
    ck.rule('R-COUNT.end-index', 'predicted index of the end pulses == number of pulses created before them (all end states)')
    ncases = check_end_index(ctx, ck)
    ck.floor('end-state cases', ncases, 30)
    ck.undecided += ['correct sign / membership of conn[K] for every junction topology (runtime graph)']
