"""Tiny multivariate polynomial algebra over opaque atoms (symbolic evaluation of source
expressions; nothing is executed)."""
import ast
from .model import norm, dotted

class Poly:
    """multivariate polynomial with numeric coefficients: {monomial(tuple of (var,exp)): coef}"""

    def __init__(self, terms=None):
        self.t = {k: v for k, v in (terms or {}).items() if v != 0}

    @staticmethod
    def const(c):
        return Poly({(): c})

    @staticmethod
    def var(v):
        return Poly({((v, 1),): 1})

    def __add__(self, o):
        r = dict(self.t)
        for k, v in o.t.items():
            r[k] = r.get(k, 0) + v
        return Poly(r)

    def __neg__(self):
        return Poly({k: -v for k, v in self.t.items()})

    def __sub__(self, o):
        return self + (-o)

    def __mul__(self, o):
        r = {}
        for k1, v1 in self.t.items():
            for k2, v2 in o.t.items():
                d = dict(k1)
                for var, e in k2:
                    d[var] = d.get(var, 0) + e
                k = tuple(sorted(d.items()))
                r[k] = r.get(k, 0) + v1 * v2
        return Poly(r)

    def __eq__(self, o):
        return self.t == o.t

    def __repr__(self):
        if not self.t:
            return '0'
        return ' + '.join('%s%s' % (v if (v != 1 or not k) else '', '*'.join(
            '%s^%d' % (a, b) if b != 1 else a for a, b in k)) for k, v in sorted(self.t.items()))


def poly_of(e, env):
    if isinstance(e, ast.Constant) and isinstance(e.value, (int, float)) and not isinstance(e.value, bool):
        return Poly.const(e.value)
    if isinstance(e, ast.Name):
        if e.id in env:
            return env[e.id]
        return Poly.var(e.id)
    if isinstance(e, ast.Attribute) and isinstance(e.value, ast.Name) and e.value.id == 'self':
        k = 'self.' + e.attr
        if k in env:
            return env[k]
        return Poly.var(k)
    if isinstance(e, ast.BinOp):
        a, b = poly_of(e.left, env), poly_of(e.right, env)
        if isinstance(e.op, ast.Add):
            return a + b
        if isinstance(e.op, ast.Sub):
            return a - b
        if isinstance(e.op, ast.Mult):
            return a * b
    if isinstance(e, ast.UnaryOp) and isinstance(e.op, ast.USub):
        return -poly_of(e.operand, env)
    raise ValueError('not polynomial: %s' % norm(e))


def coef_list(e, env):
    """[Poly] of a tuple / list / np.array([...]) literal"""
    if isinstance(e, ast.Call) and (dotted(e.func) or '').endswith('array') and e.args:
        e = e.args[0]
    if isinstance(e, (ast.Tuple, ast.List)):
        return [poly_of(x, env) for x in e.elts]
    raise ValueError('not a coefficient list: %s' % norm(e))


def ratio_equal(b, a, num, den):
    """b(s)/a(s) == num(s)/den(s) as polynomial identities: b*den == num*a (lists by power of s)"""
    def conv(x, y):
        r = [Poly() for _ in range(len(x) + len(y) - 1)]
        for i, p in enumerate(x):
            for j, q in enumerate(y):
                r[i + j] = r[i + j] + p * q
        return r
    l = conv(b, den)
    r = conv(num, a)
    n = max(len(l), len(r))
    l += [Poly()] * (n - len(l))
    r += [Poly()] * (n - len(r))
    return all(x == y for x, y in zip(l, r))




def poly_atoms(e, env, atoms):
    """like poly_of, but any sub-expression that is not + - * / of numbers and names becomes an
    opaque atom (keyed by its normalised text, remembered in `atoms`); X / Y is X * inv(Y) and
    inv(Y) * Y cancels for atomic Y"""
    if isinstance(e, ast.Constant) and isinstance(e.value, (int, float)) and not isinstance(e.value, bool):
        return Poly.const(e.value)
    if isinstance(e, ast.Name) and e.id in env:
        v = env[e.id]
        return v if isinstance(v, Poly) else poly_atoms(v, env, atoms)
    if isinstance(e, ast.BinOp) and isinstance(e.op, (ast.Add, ast.Sub, ast.Mult)):
        a, b = poly_atoms(e.left, env, atoms), poly_atoms(e.right, env, atoms)
        return a + b if isinstance(e.op, ast.Add) else (a - b if isinstance(e.op, ast.Sub) else a * b)
    if isinstance(e, ast.BinOp) and isinstance(e.op, ast.Div):
        a = poly_atoms(e.left, env, atoms)
        d = poly_atoms(e.right, env, atoms)
        # division by a single atom / constant only
        if len(d.t) == 1:
            (mono, coef), = d.t.items()
            inv = Poly({tuple(sorted((v, -ex) for v, ex in mono)): 1.0 / coef if coef != 1 else 1})
            return cancel(a * inv)
        k = 'atom:' + norm(e)
        atoms[k] = e
        return Poly.var(k)
    if isinstance(e, ast.UnaryOp) and isinstance(e.op, ast.USub):
        return -poly_atoms(e.operand, env, atoms)
    k = norm(subst_names(e, env))
    atoms[k] = subst_names(e, env)
    return Poly.var(k)


def cancel(p):
    """merge exponents of equal variables inside monomials (x^1 * x^-1 -> 1)"""
    out = {}
    for mono, coef in p.t.items():
        d = {}
        for v, ex in mono:
            d[v] = d.get(v, 0) + ex
        k = tuple(sorted((v, ex) for v, ex in d.items() if ex != 0))
        out[k] = out.get(k, 0) + coef
    return Poly(out)


def subst_names(e, env):
    """copy of e with Names replaced by the AST expressions in env (Poly values are skipped)"""
    class T(ast.NodeTransformer):
        def visit_Name(self, n):
            v = env.get(n.id)
            if isinstance(v, ast.AST) and isinstance(n.ctx, ast.Load):
                return v
            return n
    import copy
    return T().visit(copy.deepcopy(e))


def single_atom(p, atoms):
    """AST of p if it is one atom (coefficient 1, exponent 1) or a number, else None"""
    p = cancel(p)
    if not p.t:
        return ast.Constant(value=0)
    if len(p.t) == 1:
        (mono, coef), = p.t.items()
        if not mono:
            return ast.Constant(value=coef)
        if coef == 1 and len(mono) == 1 and mono[0][1] == 1:
            k = mono[0][0]
            if k in atoms:
                return atoms[k]
            return ast.Name(id=k, ctx=ast.Load())
    return None
