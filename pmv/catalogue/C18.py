MUTANTS = [
    ('phase in radians', [('mininec.Excitation.as_basic_input', "(self.idx + 1, self.magnitude, self.phase_d)", "(self.idx + 1, self.magnitude, self.phase)")], ['degrees']),
    ('report label degrees but radians', [('mininec.Excitation.as_mininec_short', "format_float ((self.magnitude, self.phase_d))", "format_float ((self.magnitude, self.phase))")], ['degrees']),
    ('current phase printed in radians', [('mininec.Mininec.currents_as_mininec', "                c = self.current [k]\n                a = np.angle (c) / np.pi * 180", "                c = self.current [k]\n                a = np.angle (c)")], ['angle-conversion']),
    ('source count from loads', [('mininec.Mininec.as_basic_input', "r.append (str (len (self.sources)))", "r.append (str (len (self.loads)))")], ['counts']),
    ('only first source written', [('mininec.Mininec.as_basic_input', "        for s in self.sources:\n            r.append (s.as_basic_input ())", "        for s in self.sources [:1]:\n            r.append (s.as_basic_input ())")], ['counts']),
    ('load count counts loads not pulses', [('mininec.Mininec.as_basic_input', "lsum += len (l.pulses)", "lsum += 1")], ['counts']),
    ('wire count counts objects', [('mininec.Mininec.as_basic_input', "nw = sum (w.n_emulated_wires for w in self.geo)", "nw = len (self.geo)")], ['counts']),
    ('emulated wires skip last segment', [('mininec.Geobj.as_basic_input', "for s in self.segments [1:]:", "for s in self.segments [1:-1]:")], ['counts', 'wire-blocks']),
    ('wire block without radius', [('mininec.Geobj.as_basic_input', "            # RADIUS:\n            r.append ('%.8g' % self.r)\n            # CHANGE WIRE NO.  x  (Y/N):\n            r.append ('N')\n        else:", "            # CHANGE WIRE NO.  x  (Y/N):\n            r.append ('N')\n        else:")], ['counts', 'wire-blocks']),
    ('tapered wire as single wire', [('mininec.Wire.n_emulated_wires', "        if self.segtype == 0:\n            return 1\n        return self.n_segments", "        return 1")], ['counts', 'n_emulated']),
    ('coordinate only for first medium', [('mininec.Medium.as_basic_input', "        if self.next:\n            # X OR R COORDINATE OF NEXT MEDIA INTERFACE:", "        if self.next and not self.prev:\n            # X OR R COORDINATE OF NEXT MEDIA INTERFACE:")], ['media-prompts']),
    ('height for every medium', [('mininec.Medium.as_basic_input', "        if self.prev:\n            # HEIGHT OF MEDIA:", "        if True:\n            # HEIGHT OF MEDIA:")], ['media-prompts']),
    ('second wire end not snapped to the ground', [('mininec.Wire.compute_ground', "        if abs (self.p2 [-1]) < eps:\n            self.p2 [-1] = 0.0\n", "")], ['grounded-end']),
    ('unit factors as a numpy integer power', [('mininec.Laplace_Load.as_basic_input', "                f = 10 ** (6 * d)", "                f = (10 ** (6 * np.arange (self.degree + 1))) [d]")], ['integer-power']),
    ('distributed load answers memoised per object', [('mininec.Distributed_Load.as_basic_input', "            z = self.impedance (self.geobj.parent.parent.f, pulse)", "            if pulse.geobj not in zc:\n                zc [pulse.geobj] = self.impedance (self.geobj.parent.parent.f, pulse)\n            z = zc [pulse.geobj]"), ('mininec.Distributed_Load.as_basic_input', "        r = []\n", "        r = []\n        zc = {}\n")], ['local-memo']),
]
REFACTORS = [
    ('source triple via temporaries', [('mininec.Excitation.as_basic_input', "r.append ('%d, %g, %g' % (self.idx + 1, self.magnitude, self.phase_d))", "ph = self.phase_d\n        r.append ('%d, %g, %g' % (self.idx + 1, self.magnitude, self.phase_d))")]),
    ('unit factors as a float power', [('mininec.Laplace_Load.as_basic_input', "                f = 10 ** (6 * d)", "                f = (10.0 ** (6 * np.arange (self.degree + 1))) [d]")]),
    ('distributed load answers memoised per pulse', [('mininec.Distributed_Load.as_basic_input', "            z = self.impedance (self.geobj.parent.parent.f, pulse)", "            if pulse not in zc:\n                zc [pulse] = self.impedance (self.geobj.parent.parent.f, pulse)\n            z = zc [pulse]"), ('mininec.Distributed_Load.as_basic_input', "        r = []\n", "        r = []\n        zc = {}\n")]),
]
