M = 'mininec.Mininec.'
MUTANTS = [
    ('source tag used as position', [(M + 'register_source', "w = self.geo.by_tag.get (geo_tag)", "w = self.geo [geo_tag - 1] if geo_tag <= len (self.geo) else None")], ['geo-tag', 'registered-index']),
    ('load tag used as position', [(M + 'register_load', "                w = self.geo.by_tag [geo_tag]\n", "                w = self.geo [geo_tag - 1]\n")], ['geo-tag', 'registered-index']),
    ('source registers relative number', [(M + 'register_source', "source.register (self, w.pulses [pulse].idx)", "source.register (self, pulse)")], ['registered-index']),
    ('source range check against antenna', [(M + 'register_source', "if pulse >= len (w.pulses):", "if pulse >= len (self.pulses):")], ['BOUNDS', 'bounds']),
    ('load range check dropped', [(M + 'register_load', "                if pulse >= len (w.pulses):\n                    raise ValueError (err)\n", "")], ['BOUNDS', 'bounds']),
    ('source number not decremented', [('mininec.main', "m.register_source (s, ep [0] - 1, ep [1])", "m.register_source (s, ep [0], ep [1])")], ['one-based-in']),
    ('load number decremented twice', [('mininec.main', "        lidx = att [0] - 1\n", "        lidx = att [0] - 2\n")], ['one-based-in']),
    ('source listing 0-based', [('mininec.Excitation.as_mininec', "% ( self.idx + 1\n", "% ( self.idx\n")], ['one-based-out']),
    ('geometry table 0-based', [('pulse.Pulse.as_mininec', "l.append ('%4d' % (self.idx + 1))", "l.append ('%4d' % (self.idx))")], ['one-based-out']),
    ('automatic tags restart at 1', [('mininec.Geo_Container.compute_tags', "            max_tag = max (tags_seen)\n", "            max_tag = 0\n")], ['compute_tags']),
    ('objects not sorted by tag', [('mininec.Geo_Container.compute_tags', "        self.geo.sort (key = lambda geobj: geobj.tag)", "        pass")], ['compute_tags']),
    ('duplicate tags accepted', [('mininec.Geo_Container.compute_tags', "                if geobj.tag in tags_seen:\n                    raise ValueError \\\n                        ('Duplicate tag \"%s\" in geo object' % geobj.tag)\n", "")], ['compute_tags']),
    ('ground positions before segmentation', [(M + '__init__', "        self.geo.compute_segments ()\n        self.geo.compute_ground ()", "        self.geo.compute_ground ()\n        self.geo.compute_segments ()")], ['positions-after-sort']),
    ('end index prediction ignores grounded first end', [('mininec.Geobj.compute_connections', "npulse = self.n_segments - (not self.idx_1) - (not self.idx_2)", "npulse = self.n_segments - (not self.conn [0].list) - (not self.idx_2)")], ['COUNT']),
]
MUTANTS += [
    ('automatic tag counter not advanced', [('mininec.Geo_Container.compute_tags', "                max_tag += 1\n                geobj.tag = max_tag\n", "                geobj.tag = max_tag + 1\n")], ['automatic']),
    ('by_tag keyed by position', [('mininec.Geo_Container.compute_tags', "            self.by_tag [geobj.tag] = geobj", "            self.by_tag [n + 1] = geobj")], ['by_tag']),
    ('sorted descending', [('mininec.Geo_Container.compute_tags', "self.geo.sort (key = lambda geobj: geobj.tag)", "self.geo.sort (key = lambda geobj: geobj.tag, reverse = True)")], ['sorted']),
    ('zero tag accepted', [('mininec.Geo_Container.compute_tags', "                if geobj.tag <= 0:", "                if geobj.tag < 0:")], ['validation']),
    ('attachments de-duplicated by the row inside the object', [('mininec._Load.add_pulse', "        self.pulses.append (pulse)", "        if pulse.n in [p.n for p in self.pulses]:\n            return\n        self.pulses.append (pulse)")], ['attach']),
]
REFACTORS = [
    ('tag lookup via membership then index', [(M + 'register_source', "            w = self.geo.by_tag.get (geo_tag)\n            if not w:", "            w = None\n            if geo_tag in self.geo.by_tag:\n                w = self.geo.by_tag [geo_tag]\n            if not w:")]),
    ('attachments de-duplicated by the pulse itself', [('mininec._Load.add_pulse', "        self.pulses.append (pulse)", "        if pulse in self.pulses:\n            return\n        self.pulses.append (pulse)")]),
]
