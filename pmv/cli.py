"""Reader-side tables extracted from `main`: registered options, arity of comma lists,
per-field converters, which fields are geometry tags, which options are consumed pairwise."""
import ast
from .model import AnalysisError, norm, dotted, walk_no_nested, parent, enclosing_stmt

INF = 10 ** 6


class Option:
    def __init__(self, strings, dest, typ, action, choices, default, node):
        self.strings = strings
        self.dest = dest
        self.type = typ
        self.action = action
        self.choices = choices
        self.default = default
        self.node = node
        self.arity = None           # (min, max) of comma separated fields, None = not a list
        self.field_conv = {}        # (count, index) or index -> 'int' | 'float' | 'str'
        self.tag_fields = set()     # {(count or None, index)}
        self.arity_source = None


def registered_options(mainf, _fallback=True):
    """options registered with add_argument in mainf; when mainf registers none (the parser is built by a factory
    function of the module: `_make_parser()`), the module-level functions of its module are searched instead"""
    if _fallback:
        own = registered_options(mainf, _fallback=False)
        if own or getattr(mainf, 'module', None) is None:
            return own
        from .model import Func
        out = {}
        for st in mainf.module.tree.body:
            if isinstance(st, ast.FunctionDef) and st is not mainf.node and st.name != mainf.node.name:
                g = Func(mainf.module, None, st, 'function')
                out.update(registered_options(g, _fallback=False))
        return out
    opts = {}
    # locals that are another name of the registration method (add = cmd.add_argument) and keyword bundles
    # handed on with ** (multi = dict(action='append'))
    alias = set()
    bundles = {}
    for st in walk_no_nested(mainf.node):
        if isinstance(st, ast.Assign) and len(st.targets) == 1 and isinstance(st.targets[0], ast.Name):
            v = st.value
            if isinstance(v, ast.Attribute) and v.attr == 'add_argument':
                alias.add(st.targets[0].id)
            elif isinstance(v, ast.Call) and isinstance(v.func, ast.Name) and v.func.id == 'dict' and not v.args and \
                    all(k.arg is not None for k in v.keywords):
                bundles[st.targets[0].id] = {k.arg: k.value for k in v.keywords}
            elif isinstance(v, ast.Dict) and all(isinstance(k, ast.Constant) and isinstance(k.value, str) for k in v.keys):
                bundles[st.targets[0].id] = {k.value: x for k, x in zip(v.keys, v.values)}
    for c in walk_no_nested(mainf.node):
        if isinstance(c, ast.Call) and ((isinstance(c.func, ast.Attribute) and c.func.attr == 'add_argument') or
                                        (isinstance(c.func, ast.Name) and c.func.id in alias)):
            strings = [a.value for a in c.args if isinstance(a, ast.Constant) and isinstance(a.value, str)]
            if not strings:
                continue
            kw = {}
            for k in c.keywords:
                if k.arg is None and isinstance(k.value, ast.Name) and k.value.id in bundles:
                    kw.update(bundles[k.value.id])
            kw.update({k.arg: k.value for k in c.keywords if k.arg is not None})
            long_ = [s for s in strings if s.startswith('--')]
            dest = (long_[0] if long_ else strings[0]).lstrip('-').replace('-', '_')
            typ = norm(kw['type']) if 'type' in kw else None
            action = kw['action'].value if 'action' in kw and isinstance(kw['action'], ast.Constant) else None
            choices = None
            if 'choices' in kw and isinstance(kw['choices'], (ast.Tuple, ast.List)):
                choices = [e.value for e in kw['choices'].elts if isinstance(e, ast.Constant)]
            o = Option(strings, dest, typ, action, choices, kw.get('default'), c)
            for s in strings:
                opts[s] = o
    return opts


def _len_range(test, var):
    """(min, max) accepted by a guard that rejects: `not a <= len(v) <= b`, `len(v) != n`"""
    t = test
    if isinstance(t, ast.UnaryOp) and isinstance(t.op, ast.Not):
        c = t.operand
        if isinstance(c, ast.Compare) and len(c.ops) == 2 and norm(c.comparators[0]) == 'len(%s)' % var \
           and all(isinstance(o, ast.LtE) for o in c.ops):
            try:
                return (int(ast.literal_eval(c.left)), int(ast.literal_eval(c.comparators[1])))
            except Exception:
                return None
    if isinstance(t, ast.Compare) and len(t.ops) == 1 and isinstance(t.ops[0], ast.NotEq) and \
       norm(t.left) == 'len(%s)' % var:
        try:
            n = int(ast.literal_eval(t.comparators[0]))
            return (n, n)
        except Exception:
            return None
    return None


def _rejects(ifnode):
    """the if-body ends the function with a non-None return (return 23)"""
    for s in ifnode.body:
        if isinstance(s, ast.Return) and s.value is not None:
            return True
    return False


def analyse_reader(model, mainf, opts):
    """fills arity / converters / tag fields of the options from the processing code in main"""
    by_dest = {}
    for o in set(opts.values()):
        by_dest[o.dest] = o
    # loops `for X in args.<dest>` (possibly enumerate) and direct uses `args.<dest>.split`
    sources = []    # (dest, elem expr text, scope stmts)
    for n in walk_no_nested(mainf.node):
        if isinstance(n, ast.For):
            it = n.iter
            if isinstance(it, ast.Call) and isinstance(it.func, ast.Name) and it.func.id == 'enumerate' and it.args:
                it2 = it.args[0]
                tv = n.target.elts[1] if isinstance(n.target, ast.Tuple) and len(n.target.elts) == 2 else None
            else:
                it2 = it
                tv = n.target
            d = dotted(it2)
            if d and d.startswith('args.') and isinstance(tv, ast.Name) and d[5:] in by_dest:
                sources.append((d[5:], tv.id, n))
            if isinstance(it2, ast.Call) and isinstance(it2.func, ast.Name) and it2.func.id == 'zip' \
               and isinstance(tv, ast.Tuple) and len(tv.elts) == len(it2.args):
                for a_, t_ in zip(it2.args, tv.elts):
                    d = dotted(a_)
                    if d and d.startswith('args.') and isinstance(t_, ast.Name) and d[5:] in by_dest:
                        sources.append((d[5:], t_.id, n))
    # direct: p = args.phi.split(',')
    for n in walk_no_nested(mainf.node):
        if isinstance(n, ast.Assign) and isinstance(n.value, ast.Call) and \
           isinstance(n.value.func, ast.Attribute) and n.value.func.attr == 'split':
            base = n.value.func.value
            d = dotted(base)
            if d and d.startswith('args.') and d[5:] in by_dest:
                sources.append((d[5:], None, n))
    for dest, elem, scope in sources:
        o = by_dest[dest]
        body = scope.body if isinstance(scope, ast.For) else None
        # find parts var
        parts = None
        parts_stmt = None
        search = list(walk_no_nested(scope)) if body is not None else [scope]
        for s in search:
            if isinstance(s, ast.Assign) and len(s.targets) == 1 and isinstance(s.targets[0], ast.Name):
                v = s.value
                txt = norm(v)
                if elem is not None and (txt == "%s.split(',')" % elem or txt == "%s.strip().split(',')" % elem):
                    parts, parts_stmt, allconv = s.targets[0].id, s, None
                    break
                if elem is None and txt == "args.%s.split(',')" % dest:
                    parts, parts_stmt, allconv = s.targets[0].id, s, None
                    break
                if elem is not None and isinstance(v, ast.ListComp) and \
                        norm(v.generators[0].iter) == "%s.split(',')" % elem:
                    parts, parts_stmt = s.targets[0].id, s
                    allconv = norm(v.elt.func) if isinstance(v.elt, ast.Call) else None
                    if allconv in ('int', 'float'):
                        o.field_conv['*'] = allconv
                    break
        if parts is None:
            # star-call through parse_floatlist: arity = constructor parameters
            for c in (walk_no_nested(scope) if body is not None else []):
                if isinstance(c, ast.Call) and isinstance(c.func, ast.Name) and c.func.id in model.classes:
                    st = [a for a in c.args if isinstance(a, ast.Starred)]
                    if st and isinstance(st[0].value, ast.Call) and norm(st[0].value.func) == 'parse_floatlist':
                        init = model.resolve_method(c.func.id, '__init__')
                        ps = init.params[1:]
                        nreq = len(ps) - len(init.node.args.defaults)
                        o.arity = (nreq, len(ps))
                        o.arity_source = 'parameters of %s.__init__' % c.func.id
                        o.field_conv['*'] = 'float'
            continue
        # arity guard: first `if` on len(parts) that rejects
        stmts = body if body is not None else None
        cands = []
        scope_nodes = walk_no_nested(scope) if body is not None else walk_no_nested(mainf.node)
        for s in scope_nodes:
            if isinstance(s, ast.If) and _rejects(s):
                r = _len_range(s.test, parts)
                if r is not None and s.lineno > parts_stmt.lineno:
                    cands.append((s.lineno, r, s))
        if cands:
            cands.sort(key=lambda x: x[0])
            o.arity = cands[0][1]
            o.arity_source = 'guard at line %d' % cands[0][0]
        else:
            o.arity = (1, INF)
            o.arity_source = 'no length guard'
        # converters and tag fields
        _field_info(model, mainf, o, parts, scope if body is not None else mainf.node, parts_stmt)
    # argparse-typed single values
    for o in set(opts.values()):
        if o.arity is None and o.type in ('complex', 'float', 'int'):
            o.arity = (1, 1)
            o.field_conv[0] = o.type
            o.arity_source = 'argparse type=%s' % o.type
    return by_dest


def _field_info(model, mainf, o, parts, scope, parts_stmt):
    """int()/float() conversions of parts[K]; names that end up as by_tag keys / geo_tag args"""
    mx = o.arity[1] if o.arity else None
    popped = None   # (count at which pop(0) happens,)
    tag_names = {}
    for n in walk_no_nested(scope):
        # tag = parts.pop(0) under `if len(parts) == N` (or N1 or N2)
        if isinstance(n, ast.Assign) and isinstance(n.value, ast.Call) and \
           norm(n.value) == '%s.pop(0)' % parts and isinstance(n.targets[0], ast.Name):
            counts = []
            p = parent(n)
            while p is not None and p is not scope:
                if isinstance(p, ast.If):
                    for c in ast.walk(p.test):
                        if isinstance(c, ast.Compare) and norm(c.left) == 'len(%s)' % parts and \
                           isinstance(c.ops[0], ast.Eq):
                            try:
                                counts.append(int(ast.literal_eval(c.comparators[0])))
                            except Exception:
                                pass
                p = parent(p)
            popped = (n.targets[0].id, counts)
    for n in walk_no_nested(scope):
        if isinstance(n, ast.Call) and isinstance(n.func, ast.Name) and n.func.id in ('int', 'float') \
           and len(n.args) == 1:
            a = n.args[0]
            if isinstance(a, ast.Subscript) and isinstance(a.value, ast.Name) and a.value.id == parts:
                try:
                    k = int(ast.literal_eval(a.slice))
                except Exception:
                    continue
                shift = 0
                if popped is not None and n.lineno > parts_stmt.lineno:
                    # indices after the pop refer to the shortened list
                    pass
                idx = k if k >= 0 else None
                key = ('last' if k == -1 else idx)
                o.field_conv[key] = n.func.id
                # name bound to the converted value
                st = enclosing_stmt(n)
                if isinstance(st, ast.Assign) and isinstance(st.targets[0], ast.Name) and st.value is n:
                    tag_names[st.targets[0].id] = key
            elif popped is not None and isinstance(a, ast.Name) and a.id == popped[0]:
                o.field_conv['popped0'] = n.func.id
                st = enclosing_stmt(n)
                if isinstance(st, ast.Assign) and isinstance(st.targets[0], ast.Name):
                    tag_names[st.targets[0].id] = 'popped0'
        # tag, taper = (int(x) for x in tparam[:2])
        if isinstance(n, ast.Assign) and isinstance(n.targets[0], ast.Tuple) and \
           isinstance(n.value, ast.GeneratorExp) and isinstance(n.value.elt, ast.Call) and \
           norm(n.value.elt.func) in ('int', 'float'):
            it = n.value.generators[0].iter
            if isinstance(it, ast.Subscript) and isinstance(it.value, ast.Name) and it.value.id == parts \
               and isinstance(it.slice, ast.Slice):
                lo = it.slice.lower.value if it.slice.lower is not None else 0
                for i, t in enumerate(n.targets[0].elts):
                    o.field_conv[lo + i] = norm(n.value.elt.func)
                    if isinstance(t, ast.Name):
                        tag_names[t.id] = lo + i
    # which of these names are used as by_tag keys or passed as tag / geo_tag
    for n in walk_no_nested(scope):
        if isinstance(n, ast.Subscript) and isinstance(n.value, ast.Attribute) and n.value.attr == 'by_tag' \
           and isinstance(n.slice, ast.Name) and n.slice.id in tag_names:
            o.tag_fields.add(tag_names[n.slice.id])
        if isinstance(n, ast.Call):
            for kw in n.keywords:
                if kw.arg in ('tag', 'geo_tag') and isinstance(kw.value, ast.Name) and kw.value.id in tag_names:
                    o.tag_fields.add(tag_names[kw.value.id])
            # positional: resolve callee parameter names for methods of the package
            fname = n.func.attr if isinstance(n.func, ast.Attribute) else (
                n.func.id if isinstance(n.func, ast.Name) else None)
            if fname:
                cands = model.methods_named(fname)
                if isinstance(n.func, ast.Name) and fname in model.classes:
                    init = model.resolve_method(fname, '__init__')
                    cands = [init] if init else []
                for g in cands:
                    ps = g.bound_params()
                    for i, a in enumerate(n.args):
                        if isinstance(a, ast.Name) and a.id in tag_names and i < len(ps) and \
                           ps[i] in ('tag', 'geo_tag'):
                            o.tag_fields.add(tag_names[a.id])
                        # parts[K] passed directly
                        if isinstance(a, ast.Subscript) and isinstance(a.value, ast.Name) and \
                           a.value.id == parts and i < len(ps) and ps[i] in ('tag', 'geo_tag'):
                            try:
                                o.tag_fields.add(int(ast.literal_eval(a.slice)))
                            except Exception:
                                pass
                        # *parts[K:] spread over the remaining parameters
                        if isinstance(a, ast.Starred) and isinstance(a.value, ast.Subscript) and \
                           isinstance(a.value.value, ast.Name) and a.value.value.id == parts and \
                           isinstance(a.value.slice, ast.Slice) and a.value.slice.lower is not None:
                            lo = a.value.slice.lower.value
                            for j, pn in enumerate(ps[i:]):
                                if pn in ('tag', 'geo_tag'):
                                    o.tag_fields.add(lo + j)
            # tuples appended for later dispatch: (key, geo.rotate, rotation, tag, rot)
        if isinstance(n, ast.Tuple):
            for i, e in enumerate(n.elts):
                if isinstance(e, ast.Name) and e.id in tag_names and e.id == 'tag' and \
                   any(isinstance(x, ast.Attribute) and x.attr in ('rotate', 'translate') for x in n.elts):
                    o.tag_fields.add(tag_names[e.id])


def paired_options(mainf):
    """[(destA, destB)] consumed by zip(args.A, args.B)"""
    out = []
    for n in walk_no_nested(mainf.node):
        if isinstance(n, ast.Call) and isinstance(n.func, ast.Name) and n.func.id == 'zip' and len(n.args) == 2:
            ds = [dotted(a) for a in n.args]
            if all(d and d.startswith('args.') for d in ds):
                out.append((ds[0][5:], ds[1][5:]))
    return out


def _preorder(node):
    """nodes in the order they are written (depth first, fields in order; nested defs left out)"""
    yield node
    for ch in ast.iter_child_nodes(node):
        if isinstance(ch, (ast.FunctionDef, ast.AsyncFunctionDef, ast.ClassDef, ast.Lambda)):
            continue
        yield from _preorder(ch)


def reader_load_class_order(mainf):
    """classes appended to the reader's `loads` list, in the order the statements are written (mainf may be the
    flattened main: statements spelled out from one loop over a table share a line, so positions, not line
    numbers, give the order)"""
    out = []
    nodes = list(_preorder(mainf.node))
    pos = {id(n): i for i, n in enumerate(nodes)}
    # loads = [Impedance_Load(l) for l in args.load]
    for n in nodes:
        if isinstance(n, ast.Assign) and len(n.targets) == 1 and norm(n.targets[0]) == 'loads' and \
           isinstance(n.value, (ast.ListComp, ast.List)):
            elts = [n.value.elt] if isinstance(n.value, ast.ListComp) else n.value.elts
            for e_ in elts:
                if isinstance(e_, ast.Call) and isinstance(e_.func, ast.Name) and e_.func.id.endswith('_Load'):
                    out.append(e_.func.id)
    for n in nodes:
        if isinstance(n, ast.Call) and isinstance(n.func, ast.Attribute) and n.func.attr == 'append' and \
           norm(n.func.value) == 'loads' and n.args:
            a = n.args[0]
            if isinstance(a, ast.Call) and isinstance(a.func, ast.Name):
                out.append(a.func.id)
            elif isinstance(a, ast.Name):
                # l = Laplace_Load(...)
                cand = None
                for s in nodes:
                    if isinstance(s, ast.Assign) and isinstance(s.targets[0], ast.Name) and \
                       s.targets[0].id == a.id and isinstance(s.value, ast.Call) and \
                       isinstance(s.value.func, ast.Name) and s.value.func.id.endswith('_Load') and \
                       pos[id(s)] < pos[id(n)]:
                        cand = s.value.func.id
                out.append(cand or a.id)
    return out
