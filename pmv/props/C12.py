"""C12  Number and placement of current unknowns follow from the wire topology.

Decided:
 D1 R-PAIR   every Pulse(...) creation in Geobj.compute_connections is followed on all paths by
             `p.n = pc`, `pc += 1`, `self.pulses.append(p)`, exactly once each; Pulse.__init__
             registers itself with the container exactly once; Pulse_Container.add is the only
             writer of pulse.idx / pulse_idx, stores then increments => numbering 0..N-1 without
             gaps in creation order; len() is that counter.
 D2          the creation sites are exactly those of the count formula: one per interior joint
             (loop over segments[:-1], pulse at the shared point of consecutive segments), one
             per grounded end K (under is_ground[K], gnd=K), one per connected end K (under
             idx_K != 0, with a sign vector).
 D3 R-LIT    the end-matching tolerance is the same literal (1e-3) times min_seglen at all sites.
Not decided: that _add_conn / idx give k-1 pulses for every junction graph (runtime topology).
"""
import ast
from ..model import AnalysisError, walk_no_nested, norm, dotted, parent, is_const, const_value, enclosing_stmt
from ..dataflow import product_of
from ..rules import loops_in, loop_reaches_on_all_paths
from ..cfg import if_chain_preds

CC = 'mininec.Geobj.compute_connections'


def creations(f):
    out = []
    for n in walk_no_nested(f.node):
        if isinstance(n, ast.Assign) and isinstance(n.value, ast.Call) and \
           isinstance(n.value.func, ast.Name) and n.value.func.id == 'Pulse' and \
           len(n.targets) == 1 and isinstance(n.targets[0], ast.Name):
            out.append(n)
    return sorted(out, key=lambda s: s.lineno)


def run(ctx, ck):
    prog = ctx.program
    m = ctx.model
    ck.rule('R-PAIR.create-register', 'Pulse creation followed once by p.n=pc, pc+=1, pulses.append(p)')
    ck.rule('R-PAIR.container', 'Pulse.__init__ adds itself once; add() is sole writer of idx, store-then-increment')
    ck.rule('R-SITES.count-formula', 'creation sites = interior joints + grounded ends + connected ends')
    ck.rule('R-LIT.tolerance', 'matching tolerance literal identical at all sites (1e-3 * min_seglen)')

    f = m.func(CC)
    fl = ctx.flow(f)
    cfg = fl.cfg
    # creation model: symbolic paths with ordered events, evaluated over all abstract end states
    from ._creation import (creation_model, creations_of, make_env, aeval, path_feasible, actual_sequence,
                            expected_sequence, states, Undecidable, feasible_paths, AssertionFails)
    import re
    f, cpaths = creation_model(ctx)
    n_create = sum(len(creations_of(p_)) for p_ in cpaths)
    ck.floor('Pulse creations on the symbolic paths of compute_connections', n_create, 5)
    ck.info('symbolic_paths', len(cpaths))
    bad_reg = {}
    n_states = 0
    bad_seq = []
    bad_n = []
    try:
        for s0, s1, nseg in states():
            env = make_env(s0, s1, nseg)
            try:
                feas = feasible_paths(cpaths, env, 'end states (%s, %s), %d segments' % (s0, s1, nseg))
            except AssertionFails as e_:
                bad_seq.append((s0, s1, nseg, str(e_), 'no failing assertion'))
                n_states += 1
                continue
            n_states += 1
            for p_ in feas:
                want = expected_sequence(s0, s1, nseg)
                got = actual_sequence(p_, env)
                if got != want:
                    bad_seq.append((s0, s1, nseg, got, want))
                # every created pulse is numbered with the count of pulses created before it in this
                # object and appended to self.pulses exactly once
                before = 0
                for c in creations_of(p_):
                    ns = [ev for ev in p_.events if ev[0] == 'store' and ev[1] == c.token + '.n']
                    ap = [ev for ev in p_.events if ev[0] == 'call' and isinstance(ev[1].func, ast.Attribute)
                          and ev[1].func.attr == 'append' and norm(ev[1].func.value) == 'self.pulses'
                          and [norm(a_) for a_ in ev[1].args] == [c.token]]
                    site = '%s%s' % (c.kind, '' if c.end is None else c.end)
                    if len(ns) != 1:
                        bad_reg.setdefault((site, 'p.n=pc'), (len(ns), c.stmt))
                    if len(ap) != 1:
                        bad_reg.setdefault((site, 'pulses.append(p)'), (len(ap), c.stmt))
                    if len(ns) == 1:
                        # (a number that depends on the position in a loop: the first element's)
                        v = aeval(ns[0][2], dict(env, **{x_.id: 0 for x_ in ast.walk(ns[0][2]) if isinstance(x_, ast.Name)
                                                         and re.match(r'_k\d+$', x_.id)}))
                        if v != before:
                            bad_n.append((s0, s1, nseg, site, v, before))
                    before += c.count(env)
    except Undecidable as e_:
        raise AnalysisError('%s: creation model not understood: %s' % (CC, e_))
    for site in ('conn1', 'gnd1', 'interior', 'gnd2', 'conn2'):
        for name in ('p.n=pc', 'pulses.append(p)'):
            b_ = bad_reg.get((site, name))
            ck.ob('R-PAIR.create-register', '%s|site[%s]|%s' % (CC, site, name), b_ is None,
                  f.loc(b_[1]) if b_ else f.loc(), '%s exactly once after the creation' % name if b_ is None else
                  '%s happens %d times after the creation of the %s pulse' % (name, b_[0], site))
    bad_n = sorted(set(bad_n), key=str)
    ck.ob('R-PAIR.create-register', CC + '|counter', not bad_n, f.loc(),
          'p.n = number of pulses created before it in the object, in all %d end-state cases' % n_states if not bad_n else
          'for end states (end1=%s, end2=%s, %d segments) the %s pulse is numbered %s but %s pulses were created '
          'before it' % bad_n[0])

    # container
    pi = m.func('pulse.Pulse.__init__')
    pfl = ctx.flow(pi)
    adds = [c for c in walk_no_nested(pi.node) if isinstance(c, ast.Call) and isinstance(c.func, ast.Attribute)
            and c.func.attr == 'add' and [norm(a) for a in c.args] == ['self']]
    ok = len(adds) == 1
    if ok:
        aid = pfl.node_id_of(adds[0])
        ok = pfl.cfg.must_pass(pfl.cfg.exit.id, {aid}) and norm(adds[0].func.value) in ('self.container', 'container')
    ck.ob('R-PAIR.container', pi.qual + '|add-once', ok, pi.loc(), 'Pulse.__init__ calls container.add(self) once on every path')
    # add(): the pulse gets the number of pulses added before it as its index, then joins the list - decided on the
    # symbolic walk, for both ways of keeping the count (a counter attribute incremented by add, or the length of
    # the list itself)
    from ..symx import SymExec
    ad = m.func('pulse.Pulse_Container.add')
    # (small properties such as `next_idx` are read as their expression; the counter itself stays a name)
    apaths = [p_ for p_ in SymExec(ctx, ad, effects=True, depth=2, props=True,
                                   no_expand=('pulse.Pulse_Container.pulse_idx',)).run() if p_.end != 'raise']
    prop = m.resolve_method('Pulse_Container', 'pulse_idx')
    counter_is_len = prop is not None and prop.kind == 'property' and \
        [norm(s_) for s_ in prop.body()] == ['return len(self.pulses)']
    okadd = bool(apaths)
    shapes_ = []
    for p_ in apaths:
        ev_idx = [(i_, ev) for i_, ev in enumerate(p_.events) if ev[0] == 'store' and ev[1] == 'pulse.idx']
        ev_app = [(i_, ev) for i_, ev in enumerate(p_.events) if ev[0] == 'call' and norm(ev[1]) == 'self.pulses.append(pulse)']
        ev_cnt = [(i_, ev) for i_, ev in enumerate(p_.events) if ev[0] == 'store' and ev[1] == 'self.pulse_idx']
        shapes_.append(([norm(ev[2]) for i_, ev in ev_idx], len(ev_app), [norm(ev[2]) for i_, ev in ev_cnt]))
        good = len(ev_idx) == 1 and len(ev_app) == 1
        if good:
            val = norm(ev_idx[0][1][2])
            if val == 'len(self.pulses)':
                good = ev_idx[0][0] < ev_app[0][0] and not ev_cnt          # the length before the pulse joins
            elif val == 'self.pulse_idx' and counter_is_len:
                good = ev_idx[0][0] < ev_app[0][0] and not ev_cnt
            elif val == 'self.pulse_idx':
                good = len(ev_cnt) == 1 and norm(ev_cnt[0][1][2]) in ('self.pulse_idx + 1', '1 + self.pulse_idx')
            else:
                good = False
        okadd = okadd and good
    ck.ob('R-PAIR.container', ad.qual + '|store-then-increment', okadd, ad.loc(),
          'add(): index = number of pulses added before, then the pulse joins the list: %s' % shapes_[:2])
    for cls, attr, allowed in (('Pulse', 'idx', {'pulse.Pulse_Container.add'}),
                               ('Pulse_Container', 'pulse_idx', {'pulse.Pulse_Container.add',
                                                                 'pulse.Pulse_Container.__init__'})):
        writers = sorted({e.func.qual for q, es in prog.effects.items() for e in es
                          if e.attr == attr and e.mode != 'read' and e.cls in (cls, '?')})
        okw = set(writers) <= allowed and (bool(writers) or (attr == 'pulse_idx' and counter_is_len))
        ck.ob('R-PAIR.container', 'writers|%s.%s' % (cls, attr), okw,
              ad.loc(), 'writers of %s.%s: %s%s' % (cls, attr, writers, ' (a property: the length of the list)' if
                                                   attr == 'pulse_idx' and counter_is_len else ''))
    ini = m.func('pulse.Pulse_Container.__init__')
    ln = m.func('pulse.Pulse_Container.__len__')
    lnb = [norm(s_) for s_ in ln.body()]
    if counter_is_len:
        ok = lnb in (['return self.pulse_idx'], ['return len(self.pulses)']) and \
            any(norm(s_) in ('self.pulses = []', 'self.pulses = list()') for s_ in ast.walk(ini.node) if isinstance(s_, ast.Assign)) or \
            (lnb in (['return self.pulse_idx'], ['return len(self.pulses)']) and
             any(isinstance(c_, ast.Call) and norm(c_.func) == 'self.reset' for c_ in ast.walk(ini.node)))
    else:
        ok = any(norm(s) == 'self.pulse_idx = 0' for s in ini.body()) and lnb == ['return self.pulse_idx']
    ck.ob('R-PAIR.container', 'counter-init-and-len', ok, ini.loc(), 'the count starts at 0; len() returns it')

    # ---------------------------------------------------------------- D2
    bs = sorted(set((x[0], x[1], x[2], str(x[3]), str(x[4])) for x in bad_seq), key=str)
    ck.ob('R-SITES.count-formula', CC + '|site-kinds', not bs, f.loc(),
          'in all %d end-state cases the pulses created are: one for a grounded or joined end 1, one per interior '
          'joint, one for a grounded or joined end 2 (a ring closes at end 2)' % n_states if not bs else
          'for end states (end1=%s, end2=%s, %d segments) the pulses created are %s, the topology calls for %s '
          '(%d cases differ)' % (bs[0] + (len(bs),)))
    # interior pulse: at the point shared by consecutive segments
    forms = set()
    for p_ in cpaths:
        for c in creations_of(p_):
            if c.interior:
                forms.add(tuple(re.sub(r'_k\d+', '_k', a_) for a_ in c.args[1:6]))
    S, T = 'self.segments[_k]', 'self.segments[_k + 1]'
    ok = forms == {('%s.p2' % S, '%s.p1' % S, '%s.p2' % T, S, T)}
    ck.ob('R-SITES.count-formula', CC + '|interior', ok, f.loc(),
          'one pulse per interior joint, at the point shared by consecutive segments: Pulse(%s)' % sorted(forms)[:1])

    # ---------------------------------------------------------------- D3
    sites = []
    # every local that is computed from <x>.min_seglen by a product (the tolerance), wherever it is
    for g in sorted(m.all_funcs(), key=lambda x: x.qual):
        if g.module.name != 'mininec':
            continue
        # (assigned to a local, returned by a helper, or used in place: the outermost product counts)
        for s in walk_no_nested(g.node):
            if isinstance(s, ast.BinOp) and isinstance(s.op, (ast.Mult, ast.Div)) and \
               not (isinstance(parent(s), ast.BinOp) and isinstance(parent(s).op, (ast.Mult, ast.Div))) and \
               any(isinstance(x, ast.Attribute) and x.attr == 'min_seglen' and isinstance(x.ctx, ast.Load)
                   for x in ast.walk(s)):
                pr = product_of(s)
                st_ = enclosing_stmt(s)
                name_ = norm(st_.targets[0]) if isinstance(st_, ast.Assign) and st_.value is s else \
                    ('return' if isinstance(st_, ast.Return) and st_.value is s else 'in ' + norm(st_)[:30])
                sites.append((g, s, pr, name_))
    ck.floor('tolerance sites', len(sites), 2)
    coefs = {pr.coef for g, s, pr, name_ in sites}
    for g, s, pr, name_ in sites:
        nn, dd = pr.texts()
        ok = abs(pr.coef - 1e-3) < 1e-15 and len(nn) == 1 and nn[0].endswith('min_seglen') and not dd
        # the shortest segment of the whole structure (Mininec / Geo_Container), not of one object
        if ok:
            fac = [x for t, x in pr.num][0]
            rt = prog.type_of(fac.value, prog.env[g.qual], g) if isinstance(fac, ast.Attribute) else None
            from ..resolve import classes_of
            cls = classes_of(rt) if rt is not None else []
            glob = bool(cls) and set(cls) <= {'Mininec', 'Geo_Container'}
            if not glob:
                ck.ob('R-LIT.tolerance', '%s|%s|global' % (g.qual, name_), False, g.loc(s),
                      'tolerance is taken from %s (an attribute of %s): the matching tolerance must be 1/1000 of '
                      'the shortest segment of the whole structure' % (norm(fac), cls or 'an unresolved receiver'))
                continue
        ck.ob('R-LIT.tolerance', '%s|%s' % (g.qual, name_), ok, g.loc(s),
              'tolerance = %r * %s' % (pr.coef, nn))
    ck.ob('R-LIT.tolerance', 'all-equal', len(coefs) == 1, f.loc(), 'tolerance literals used: %s' % sorted(coefs))
    # an end is grounded when it lies within the tolerance of the ground plane (not only when bit-exactly on it):
    # the per-end flags stored by Geobj.compute_ground, as closed expressions
    from ..symx import SymExec
    from ..poly import poly_roles, cancel
    cgf = m.func('mininec.Geobj.compute_ground')
    want_eps = cancel(poly_roles(ast.parse('self.parent.min_seglen * 1e-3', mode='eval').body, {}))
    badg = None
    n_g = 0
    for p_ in SymExec(ctx, cgf, bind_loops=True, effects=True, props=True, depth=3, max_paths=2000).run():
        if p_.end == 'raise':
            continue
        for ev in p_.events:
            if ev[0] != 'store' or ev[1] != 'self.is_ground':
                continue
            v_ = ev[2]
            if isinstance(v_, ast.Call) and isinstance(v_.func, ast.Name) and v_.func.id == 'tuple' and len(v_.args) == 1:
                v_ = v_.args[0]
            if not (isinstance(v_, (ast.Tuple, ast.List)) and len(v_.elts) == 2):
                badg = badg or ('is_ground = %s is not a pair of per-end flags' % norm(v_)[:60], ev[3])
                continue
            if all(isinstance(x_, ast.Constant) and x_.value is False for x_ in v_.elts):
                continue        # free space
            n_g += 1
            for k_, x_ in enumerate(v_.elts):
                okx = False
                if isinstance(x_, ast.Compare) and len(x_.ops) == 1 and isinstance(x_.ops[0], (ast.Lt, ast.LtE)) and \
                   isinstance(x_.left, ast.Call) and (dotted(x_.left.func) or '').split('.')[-1] in ('abs', 'fabs', 'absolute') and \
                   len(x_.left.args) == 1 and norm(x_.left.args[0]) in ('self.p%d[-1]' % (k_ + 1), 'self.p%d[2]' % (k_ + 1)):
                    try:
                        okx = cancel(poly_roles(x_.comparators[0], {}) - want_eps).t == {}
                    except (ValueError, ZeroDivisionError):
                        okx = False
                if not okx:
                    badg = badg or ('end %d is taken as grounded when %s: not "height within 1e-3 of the shortest segment of the '
                                    'ground plane" - an end that is on the ground within the tolerance (an arc end at r sin(pi)) '
                                    'is treated as free' % (k_ + 1, norm(x_)[:60]), ev[3])
    ck.floor('ground flag stores on the symbolic paths', n_g, 1)
    ck.ob('R-LIT.tolerance', cgf.qual + '|ground-test', badg is None, cgf.loc(badg[1]) if badg and badg[1] is not None else cgf.loc(),
          'an end is grounded when |z| < 1e-3 * shortest segment' if badg is None else badg[0])
    check_end_match_distance(ctx, ck, 'R-LIT.tolerance')
    from ._endidx import check_end_index
    ck.rule('R-COUNT.end-index', 'predicted index of the end pulses == number of pulses created before them (all end states)')
    ncases = check_end_index(ctx, ck)
    # a junction pulse sits on the joint shared by its two segments: its outer half lies on the segment of the
    # neighbour that touches the junction (rule shared with C02 / C06)
    ck.rule('R-SIB.junction-geometry', 'the outer half of a junction pulse is the neighbour segment touching the junction')
    from ._creation import check_neighbour_segment
    check_neighbour_segment(ctx, ck, rule='R-SIB.junction-geometry')
    ck.floor('end-state cases', ncases, 30)
    # every junction found by the end matching is registered (both directions) - an unregistered one has no pulse
    ck.rule('R-SIB.add-conn', '_add_conn registers the junction in both directions on every path')
    from .C06 import check_add_conn
    check_add_conn(ctx, ck, 'R-SIB.add-conn')
    ck.undecided += ['k-1 pulses for every junction of k ends (depends on runtime connection graph)']


def check_end_match_distance(ctx, ck, rule):
    """the end matching of compute_connections (with the helpers it calls on self) joins two ends when the
    *distance* between them (a norm of the coordinate difference) is <= / < the tolerance taken from min_seglen:
    exactly one such comparison.  Shared with C05: a test of this form depends on relative positions only, so a
    translated or rotated structure is joined up the same way; anything else (component-wise closeness with a
    relative term, a comparison of coordinates) is reported."""
    from ..rules import self_closure
    f = ctx.model.func(CC)
    cmp_ = []

    def near(f_, depth=2):
        # the helpers called on self plus what they call on other objects of the package (parent.match_end(..)),
        # two levels deep
        seen_ = {g_.qual: g_ for g_ in self_closure(ctx, f_)}
        frontier = list(seen_.values())
        for _ in range(depth):
            nxt = []
            for g_ in frontier:
                for e_ in ctx.program.edges.get(g_.qual, []):
                    if e_.kind == 'call' and e_.callee.qual not in seen_ and e_.callee.qual in ctx.model.funcs:
                        seen_[e_.callee.qual] = e_.callee
                        nxt.append(e_.callee)
            frontier = nxt
        return list(seen_.values())
    closure_ = near(f)
    for g_ in closure_:
        gfl_ = ctx.flow(g_)
        for n in walk_no_nested(g_.node):
            if isinstance(n, ast.Compare) and len(n.ops) == 1:
                rl = gfl_.roots(n.left, gfl_.node_id_of(n))
                rr = gfl_.roots(n.comparators[0], gfl_.node_id_of(n))
                dist = lambda r_: any(x[0] == 'call' and x[1].endswith('linalg.norm') for x in r_)
                tol = lambda r_: any((x[0] == 'attrname' and x[1] == 'min_seglen') or
                                     (x[0] == 'attr' and x[1].endswith('min_seglen')) for x in r_)
                if dist(rl) and tol(rr):
                    cmp_.append((g_, n, n.ops[0]))
                elif dist(rr) and tol(rl):
                    cmp_.append((g_, n, {ast.Gt: ast.Lt(), ast.GtE: ast.LtE()}.get(type(n.ops[0]), n.ops[0])))
    if not cmp_:
        # no such comparison: a closeness helper with a relative term is a definite answer, anything else is
        # a form of the test this rule does not know
        rel = []
        for g_ in closure_:
            for c in walk_no_nested(g_.node):
                if isinstance(c, ast.Call) and (dotted(c.func) or '').split('.')[-1] in ('isclose', 'allclose') and \
                   any('min_seglen' in norm(x) or isinstance(x, ast.Name) for k in c.keywords if k.arg == 'atol' for x in [k.value]):
                    rt = [k.value for k in c.keywords if k.arg in ('rtol', 'rel_tol')]
                    if not (rt and isinstance(rt[0], ast.Constant) and rt[0].value == 0):
                        rel.append((g_, c))
        if not rel:
            raise AnalysisError('%s: no comparison of a distance (linalg.norm) with the matching tolerance found - the form '
                                'of the end matching test is not understood' % CC)
        ck.ob(rule, CC + '|distance-compare', False, rel[0][0].loc(rel[0][1]),
              'ends are matched with %s: besides the absolute tolerance it allows a relative one (default rtol) that '
              'grows with the absolute coordinates - which ends are joined depends on where the structure is placed'
              % norm(rel[0][1].func))
        return
    ok = len(cmp_) == 1 and isinstance(cmp_[0][2], (ast.LtE, ast.Lt))
    ck.ob(rule, CC + '|distance-compare', ok, cmp_[0][0].loc(cmp_[0][1]) if cmp_ else f.loc(),
          'ends joined when distance <= tolerance (the only test: it depends on relative positions alone)' if ok else
          'the end matching is not one comparison `norm(end - other end) <= tolerance` (%d found)' % len(cmp_))
