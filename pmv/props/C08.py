"""C08  Loads act as the series circuit elements they describe.

Decided:
 D1 R-EXH   compute_impedance_matrix_loads: for every load and every attached pulse exactly one
            `+=` on the diagonal element Z[j][j] with j = pulse.idx (several loads add up).
 D2 R-SIB   weight of a load impedance on the diagonal == weight of a source voltage in the
            right-hand side (-1j/m, doubled for a grounded pulse) => a series load adds exactly
            Z_L to the feed impedance, also on a grounded wire end.
 D3         interface conformance of every concrete load class (impedance / as_cmdline /
            as_basic_input / as_mininec resolve and accept the call shapes used).
 D4 R-POLY  RLC and trap coefficient lists, evaluated symbolically from the source, equal the
            rational function of the circuit they describe; Laplace_Load.impedance is
            sum(b_j s^j) / sum(a_j s^j) with s = j*2*pi*f*1e6; conductivity = 1/resistivity is
            the only derivation and the impedance reads the conductivity only.
 D5 R-EXH   register_load: attach-to-all iterates every pulse of the object(s) once; a load is
            numbered and listed once.
 (R-CACHE of the per-object caches is decided under C14/C06 and re-checked here for zint.)
Not decided: Bessel asymptote, closed-form wire impedance values (numeric).
"""
import ast
from ..model import AnalysisError, walk_no_nested, norm, dotted, parent, const_value, is_const
from ..dataflow import product_of, sum_terms
from ..rules import loops_in, loop_reaches_on_all_paths, assigns_to_attr, calls_in
from ..cfg import if_chain_preds

LOADS = 'mininec.Mininec.compute_impedance_matrix_loads'
RHS = 'mininec.Mininec.compute_rhs'
CONCRETE = ['Impedance_Load', 'Laplace_Load', 'Series_RLC_Load', 'Trap_Load', 'Skin_Effect_Load',
            'Insulation_Load']


# ------------------------------------------------------------------ weights
def weight_alternatives(fl, expr, at, depth=0):
    """possible (coef, num texts, den texts, guards) of a product expression whose local factors
    may have several reaching definitions (f2 = a ; if g: f2 *= 2 / f2 = b)"""
    pr = product_of(expr)
    alts = [(pr.coef, [], [], ())]
    for which, facs in (('num', pr.num), ('den', pr.den)):
        for t, x in facs:
            if isinstance(x, ast.Name) and x.id in fl.rd.names and depth < 4:
                subs = []
                for d in fl.def_exprs(x.id, at):
                    if d[0] == 'assign' and any(isinstance(y, ast.Name) and y.id == x.id for y in ast.walk(d[1])):
                        # factor = factor * 2 : an update written as plain assignment
                        g = tuple(if_chain_preds(fl.cfg, d[2]))
                        for a in weight_alternatives(fl, d[1], d[2], depth + 1):
                            subs.append((a[0], a[1], a[2], a[3] + g))
                    elif d[0] == 'assign':
                        g = tuple(if_chain_preds(fl.cfg, d[2]))
                        for a in weight_alternatives(fl, d[1], d[2], depth + 1):
                            subs.append((a[0], a[1], a[2], a[3] + g))
                    elif d[0] == 'aug':
                        st = d[1]
                        g = tuple(if_chain_preds(fl.cfg, d[2]))
                        prev = weight_alternatives(fl, ast.Name(id=x.id, ctx=ast.Load()), d[2], depth + 1)
                        fac = weight_alternatives(fl, st.value, d[2], depth + 1)
                        for a in prev:
                            for b in fac:
                                if isinstance(st.op, ast.Mult):
                                    subs.append((a[0] * b[0], a[1] + b[1], a[2] + b[2], a[3] + b[3] + g))
                                elif isinstance(st.op, ast.Div):
                                    subs.append((a[0] / b[0], a[1] + b[2], a[2] + b[1], a[3] + b[3] + g))
                    elif d[0] == 'param':
                        subs.append((1, [x.id], [], ()))
                if not subs:
                    subs = [(1, [t], [], ())]
                new = []
                for a in alts:
                    for s in subs:
                        if which == 'num':
                            new.append((a[0] * s[0], a[1] + s[1], a[2] + s[2], a[3] + s[3]))
                        else:
                            new.append((a[0] / s[0], a[1] + s[2], a[2] + s[1], a[3] + s[3]))
                alts = new
            else:
                alts = [(a[0], a[1] + [t], a[2], a[3]) if which == 'num' else
                        (a[0], a[1], a[2] + [t], a[3]) for a in alts]
    # dedupe
    out = []
    for a in alts:
        k = (complex(a[0]), sorted(a[1]), sorted(a[2]), tuple(a[3]))
        if k not in out:
            out.append(k)
    return out


def split_weight(alts, payload_pred):
    """separate the payload factor (voltage / impedance call) from the weight"""
    res = []
    for coef, num, den, guards in alts:
        pay = [t for t in num if payload_pred(t)]
        rest = tuple(t for t in num if not payload_pred(t))
        res.append((coef, rest, tuple(den), guards, tuple(pay)))
    return res


from ..poly import Poly, poly_of, coef_list, ratio_equal


def super_init_args(func, model):
    """{param name of the base __init__: arg expr} for the super().__init__ call in func"""
    for c in walk_no_nested(func.node):
        if isinstance(c, ast.Call) and isinstance(c.func, ast.Attribute) and c.func.attr == '__init__' \
           and isinstance(c.func.value, ast.Call) and isinstance(c.func.value.func, ast.Name) \
           and c.func.value.func.id == 'super':
            base = model.resolve_method(func.cls.name, '__init__', after=func.cls.name)
            params = base.params[1:]
            m = {}
            for i, a in enumerate(c.args):
                m[params[i]] = a
            for k in c.keywords:
                m[k.arg] = k.value
            return c, m
    return None, {}


def find_diag_store(ctx):
    """the statement that stores into self.Z in compute_impedance_matrix_loads (any form)"""
    m = ctx.model
    f = m.func(LOADS)
    fl = ctx.flow(f)
    stores = []
    for n in fl.cfg.nodes:
        s_ = n.stmt
        if n.kind == 'stmt' and isinstance(s_, (ast.AugAssign, ast.Assign)):
            t = s_.target if isinstance(s_, ast.AugAssign) else s_.targets[0]
            idx = []
            while isinstance(t, ast.Subscript):
                idx = ([norm(x) for x in t.slice.elts] if isinstance(t.slice, ast.Tuple) else [norm(t.slice)]) + idx
                t = t.value
            if dotted(t) == 'self.Z' and idx:
                stores.append((n, idx))
    if len(stores) != 1:
        raise AnalysisError('compute_impedance_matrix_loads: expected one store into self.Z, found %d' % len(stores))
    store, idx = stores[0]
    st = store.stmt
    jn = idx[0]
    jd = fl.single_def(jn, store.id) if jn.isidentifier() else None
    return f, fl, store, st, jd, idx


def check_weights(ctx, ck):
    m = ctx.model
    f, fl, store, st, jd, _idx = find_diag_store(ctx)
    def is_imp(tx):
        return '.impedance(' in tx
    l_alts = split_weight(weight_alternatives(fl, fl.inline(st.value, store.id, depth=1)
                                              if any(isinstance(x_, ast.Name) and fl.single_def(x_.id, store.id)
                                                     and isinstance(fl.single_def(x_.id, store.id)[0], ast.Call)
                                                     for x_ in ast.walk(st.value) if isinstance(x_, ast.Name)
                                                     and x_.id in fl.rd.names)
                                              else st.value, store.id), is_imp)
    g = m.func(RHS)
    gfl = ctx.flow(g)
    rstores = [n for n in gfl.cfg.nodes if n.kind == 'stmt' and isinstance(n.stmt, (ast.Assign, ast.AugAssign))
               and isinstance((n.stmt.targets[0] if isinstance(n.stmt, ast.Assign) else n.stmt.target),
                              ast.Subscript)]
    if len(rstores) != 1:
        raise AnalysisError('compute_rhs: expected one element store, found %d' % len(rstores))
    r_alts = split_weight(weight_alternatives(gfl, rstores[0].stmt.value, rstores[0].id),
                          lambda tx: tx.endswith('.voltage'))

    # every definition of a weight factor that reaches the store lies in the same (innermost)
    # loop body as the store: the weight is recomputed for every element and cannot carry the
    # doubling of a previous (grounded) element over to the next one
    def stale_defs(fl_, store_node):
        from ..model import parent as _parent
        st_ = store_node.stmt
        lp = _parent(st_)
        while lp is not None and not isinstance(lp, (ast.For, ast.While)):
            lp = _parent(lp)
        if lp is None:
            return []
        body_ids = fl_.cfg.loops[fl_.cfg.node_of(lp)][0]
        out = []
        pr_ = product_of(st_.value)
        for t_, x_ in pr_.num + pr_.den:
            if isinstance(x_, ast.Name) and x_.id in fl_.rd.names:
                for d_ in fl_.def_exprs(x_.id, store_node.id):
                    if d_[0] in ('assign', 'aug') and d_[2] not in body_ids:
                        out.append((x_.id, d_[2]))
        return out
    for who, fl_, node_ in (('load', fl, store), ('source', gfl, rstores[0])):
        bad_ = stale_defs(fl_, node_)
        ck.ob('R-SIB.weight', 'weight-per-element|%s' % who, not bad_, (f if who == 'load' else g).loc(node_.stmt),
              'the %s weight is initialised inside the loop over the elements' % who if not bad_ else
              'weight factor %s is initialised outside the loop: the doubling for a grounded pulse leaks '
              'into the following elements' % sorted({b[0] for b in bad_}))

    def summarize(alts):
        """(base alternatives, doubled alternatives): the doubled one carries a guard whose taken
        branch tests `.ground.any()`; everything else is the base weight"""
        dbl = [a for a in alts if any(b and '.ground.any()' in t for t, b in a[3])]
        base = [a for a in alts if a not in dbl]
        return base, dbl
    lb, ld = summarize(l_alts)
    rb, rd = summarize(r_alts)
    ok = len(lb) == 1 and len(rb) == 1 and len(ld) == 1 and len(rd) == 1
    why = 'load weights %s ; source weights %s' % (l_alts, r_alts)
    if ok:
        same_base = abs(lb[0][0] - rb[0][0]) < 1e-12 and lb[0][1] == rb[0][1] and lb[0][2] == rb[0][2]
        ck.ob('R-SIB.weight', 'base-weight', same_base, f.loc(st),
              'load weight %r*%s/%s vs source weight %r*%s/%s' % (
                  lb[0][0], list(lb[0][1]), list(lb[0][2]), rb[0][0], list(rb[0][1]), list(rb[0][2])))
        dl = ld[0][0] / lb[0][0]
        dr = rd[0][0] / rb[0][0]
        ck.ob('R-SIB.weight', 'grounded-factor', abs(dl - 2) < 1e-12 and abs(dr - 2) < 1e-12 and
              ld[0][1:3] == lb[0][1:3] and rd[0][1:3] == rb[0][1:3], f.loc(st),
              'grounded pulse: load x%s, source x%s' % (dl, dr))
        # guards: "any half of the pulse is grounded" on the loaded / excited pulse
        gl = [t for t, b in ld[0][3] if b]
        gr = [t for t, b in rd[0][3] if b]

        def norm_guard(txts):
            out = []
            for t in txts:
                for part in t.split(' and '):
                    part = part.strip()
                    if part in ('self.media is not None',):
                        continue
                    out.append(part)
            return out
        gln, grn = norm_guard(gl), norm_guard(gr)
        okg = len(gln) == 1 and len(grn) == 1 and gln[0].endswith('.ground.any()') and \
            grn[0].endswith('.ground.any()')
        ck.ob('R-SIB.weight', 'grounded-guard', okg, f.loc(st),
              'doubling guards: load `%s`, source `%s`' % (gl, gr))
        # the guarded pulse is the loaded / excited one
        if okg:
            lp = gln[0][:-len('.ground.any()')]
            rp = grn[0][:-len('.ground.any()')]
            pulse_var = norm(jd[0].value) if jd else '?'
            okp = lp == pulse_var and rp.startswith('self.pulses[') and rp.endswith('.idx]')
            ck.ob('R-SIB.weight', 'grounded-guard-pulse', okp, f.loc(st),
                  'load guard tests %s (loaded pulse %s); source guard tests %s' % (lp, pulse_var, rp))
    else:
        ck.ob('R-SIB.weight', 'base-weight', False, f.loc(st), why)
    # the payload is l.impedance(self.f, pulse)
    imp_calls = [c for c in ast.walk(fl.inline(st.value, store.id)) if isinstance(c, ast.Call) and
                 isinstance(c.func, ast.Attribute) and c.func.attr == 'impedance']
    ok = len(imp_calls) == 1 and [norm(a) for a in imp_calls[0].args] == ['self.f', norm(jd[0].value) if jd else '?']
    ck.ob('R-SIB.weight', 'payload', ok, f.loc(st), 'adds %s' % (norm(imp_calls[0]) if imp_calls else '?'))



def run(ctx, ck):
    prog = ctx.program
    m = ctx.model
    ck.rule('R-EXH.diagonal', 'each (load, pulse) adds once to Z[j][j], j = pulse.idx')
    ck.rule('R-SIB.weight', 'load weight on the diagonal == source weight in the rhs (incl. doubling)')
    ck.rule('R-IFACE.load', 'concrete load classes implement the 4 methods with the used call shapes')
    ck.rule('R-POLY.circuit', 'coefficient lists equal the circuit impedance as rational functions')
    ck.rule('R-DEP.skin', 'conductivity = 1/resistivity only; impedance reads conductivity')
    ck.rule('R-EXH.attach', 'attach-to-all touches each pulse once; load registered once')

    # ---------------------------------------------------------------- D1
    f = m.func(LOADS)
    fl = ctx.flow(f)
    ls = [l for l in loops_in(f.node) if isinstance(l, ast.For)]
    outer = [l for l in ls if norm(l.iter) == 'self.loads']
    ck.floor('loops over self.loads', len(outer), 1)
    f, fl, store, st, jd, idx = find_diag_store(ctx)
    is_acc = isinstance(st, ast.AugAssign) and isinstance(st.op, ast.Add)
    ck.ob('R-EXH.diagonal', LOADS + '|accumulates', is_acc, f.loc(st),
          'loads are added to the matrix with += (several loads on a pulse add up)' if is_acc else
          'the load term is stored with `%s`, not accumulated with +=' % norm(st)[:60])
    ck.ob('R-EXH.diagonal', LOADS + '|diagonal-element', len(idx) == 2 and idx[0] == idx[1], f.loc(st),
          'element Z[%s] is on the diagonal' % ', '.join(idx) if len(idx) == 2 and idx[0] == idx[1] else
          'element Z[%s] is not a diagonal element' % ', '.join(idx))
    for ol in outer:
        inner = [l for l in loops_in(ol) if isinstance(l, ast.For)]
        lv = ol.target.id if isinstance(ol.target, ast.Name) else '?'
        full = [l for l in inner if norm(l.iter) == '%s.pulses' % lv]
        ck.ob('R-EXH.diagonal', LOADS + '|loops', len(full) == 1, f.loc(ol),
              'for every load, for every pulse of the load' if len(full) == 1 else
              'inner loop iterates %s, not all pulses of the load' % [norm(l.iter) for l in inner])
        for il in inner:
            mn, mx = loop_reaches_on_all_paths(fl, il, lambda n: n is store)
            ck.ob('R-EXH.diagonal', LOADS + '|one-add-per-pulse', (mn, mx) == (1, 1), f.loc(il),
                  'matrix update per (load, pulse): min %s max %s' % (mn, mx))
    jn = idx[0]
    ok = jd is not None and isinstance(jd[0], ast.Attribute) and jd[0].attr == 'idx'
    ck.ob('R-EXH.diagonal', LOADS + '|index=pulse.idx', ok, f.loc(st),
          'diagonal index %s = %s' % (jn, norm(jd[0]) if jd else '?'))

    check_weights(ctx, ck)

    # ---------------------------------------------------------------- D3
    shapes = {'impedance': (2, []), 'as_cmdline': (1, ['by_geo']), 'as_basic_input': (2, []),
              'as_mininec': (1, [])}
    n_if = 0
    for cname in CONCRETE:
        m.cls(cname)
        for meth, (npos, kws) in shapes.items():
            g = m.resolve_method(cname, meth)
            ok = g is not None
            why = 'not implemented'
            if ok:
                params = g.params[1:]
                a = g.node.args
                nreq = len(params) - len(a.defaults)
                ok = nreq <= npos <= len(params) or (a.vararg is not None and nreq <= npos)
                ok = ok and all(k in g.all_params or a.kwarg for k in kws)
                why = '%s(%s) accepts %d positional %s' % (g.qual, ', '.join(params), npos, kws)
            ck.ob('R-IFACE.load', '%s.%s' % (cname, meth), ok, g.loc() if g else m.cls(cname).module.relpath(), why)
            n_if += 1
    ck.floor('interface obligations', n_if, 24)

    # ---------------------------------------------------------------- D4
    lap = m.func('mininec.Laplace_Load.__init__')
    # a / b stored as given (zero padded)
    txt = ' '.join(norm(s) for s in lap.body())
    ok = 'self.a[:len(a)] = a' in txt and 'self.b[:len(b)] = b' in txt
    ck.ob('R-POLY.circuit', 'Laplace_Load.__init__|stores a,b', ok, lap.loc(),
          'denominator a and numerator b stored zero-padded')
    imp = m.func('mininec.Laplace_Load.impedance')
    ifl = ctx.flow(imp)
    ret = [n for n in walk_no_nested(imp.node) if isinstance(n, ast.Return)]
    ok, why = False, 'unexpected shape'
    if len(ret) == 1 and isinstance(ret[0].value, ast.BinOp) and isinstance(ret[0].value.op, ast.Div):
        nu, de = ret[0].value.left, ret[0].value.right
        augs = {norm(s.target): s for s in walk_no_nested(imp.node) if isinstance(s, ast.AugAssign)}
        un, dn = norm(nu), norm(de)
        if un in augs and dn in augs:
            pu, pd = product_of(augs[un].value), product_of(augs[dn].value)
            mu = [t for t, x in pu.num if not t.startswith('self.')]
            okn = any(t.startswith('self.b[') for t, _ in pu.num) and any(t.startswith('self.a[') for t, _ in pd.num)
            pw = [s for s in augs.values() if isinstance(s.op, ast.Mult)]
            oks = False
            if len(pw) == 1 and mu and norm(pw[0].target) == mu[0]:
                pp = product_of(ifl.inline(pw[0].value, ifl.node_id_of(pw[0])))
                nn, dd = pp.texts()
                oks = abs(pp.coef - 2e6j) < 1e-3 and nn == ['f', 'np.pi'] and not dd
                why = 's = %r * %s' % (pp.coef, nn)
            ok = okn and oks and isinstance(augs[un].op, ast.Add) and isinstance(augs[dn].op, ast.Add)
    ck.ob('R-POLY.circuit', 'Laplace_Load.impedance|sum b s^j / sum a s^j', ok, imp.loc(), why)

    # Series RLC
    rlc = m.func('mininec.Series_RLC_Load.__init__')
    call, amap = super_init_args(rlc, m)
    R, L, C = Poly.var('R'), Poly.var('L'), Poly.var('C')
    env = {'self.r': R, 'self.l': L, 'self.c': C, 'r': R, 'l': L, 'R': R, 'L': L, 'C': C}
    rfl = ctx.flow(rlc)
    n_alt = 0
    if call is not None and 'a' in amap and 'b' in amap:
        an, bn = amap['a'], amap['b']
        nid = rfl.node_id_of(call)
        adefs = [d for d in rfl.def_exprs(an.id, nid) if d[0] == 'assign'] if isinstance(an, ast.Name) else []
        bdefs = {d[2]: d for d in rfl.def_exprs(bn.id, nid) if d[0] == 'assign'} if isinstance(bn, ast.Name) else {}
        for d in adefs:
            guards = if_chain_preds(rfl.cfg, d[2])
            # partner definition of b in the same branch
            bd = [x for x in bdefs.values() if if_chain_preds(rfl.cfg, x[2]) == guards]
            if len(bd) != 1:
                continue
            try:
                a = coef_list(d[1], env)
                b = coef_list(bd[0][1], env)
            except ValueError as e:
                ck.ob('R-POLY.circuit', 'Series_RLC_Load|%s' % (guards,), False, rlc.loc(), str(e))
                continue
            with_c = any(t == 'C' and br for t, br in guards)
            if with_c:
                # R + sL + 1/(sC) = (1 + sRC + s^2 LC) / (sC)
                num = [Poly.const(1), R * C, L * C]
                den = [Poly(), C]
            else:
                num = [R, L]
                den = [Poly.const(1)]
            ok = ratio_equal(b, a, num, den)
            ck.ob('R-POLY.circuit', 'Series_RLC_Load|%s' % ('with C' if with_c else 'without C'), ok,
                  rlc.loc(call), 'b=%s a=%s %s R + sL%s' % (b, a, '==' if ok else '!=',
                                                           ' + 1/(sC)' if with_c else ''))
            n_alt += 1
    ck.floor('Series_RLC coefficient alternatives', n_alt, 2)
    # Trap
    trap = m.func('mininec.Trap_Load.__init__')
    call, amap = super_init_args(trap, m)
    ok, why = False, 'super().__init__(a=..., b=...) not found'
    if call is not None and 'a' in amap and 'b' in amap:
        try:
            a = coef_list(amap['a'], env)
            b = coef_list(amap['b'], env)
            ok = ratio_equal(b, a, [R, L], [Poly.const(1), R * C, L * C])
            why = 'b=%s a=%s %s (R+sL) || 1/(sC)' % (b, a, '==' if ok else '!=')
        except ValueError as e:
            why = str(e)
    ck.ob('R-POLY.circuit', 'Trap_Load', ok, trap.loc(call), why)
    # Impedance load: constant
    il = m.func('mininec.Impedance_Load.__init__')
    ok = any(norm(s) == 'self._impedance = impedance' for s in il.body())
    base_imp = m.func('mininec._Load.impedance')
    rr = [n for n in walk_no_nested(base_imp.node) if isinstance(n, ast.Return)]
    ok = ok and len(rr) == 1 and norm(rr[0].value) == 'self._impedance'
    ck.ob('R-POLY.circuit', 'Impedance_Load', ok, il.loc(), 'impedance(f) returns the constructor value')

    # skin effect: conductivity
    se = m.func('mininec.Skin_Effect_Load.__init__')
    asg = assigns_to_attr(se, 'self.conductivity')
    derived = [a for a in asg if not (isinstance(a.value, ast.Name))]
    ok = len(derived) == 1
    why = '%d derivations of conductivity' % len(derived)
    if ok:
        p = product_of(derived[0].value)
        nn, dd = p.texts()
        ok = p.coef == 1 and not nn and dd == ['self.resistivity']
        why = 'self.conductivity = %s' % norm(derived[0].value)
    ck.ob('R-DEP.skin', se.qual + '|1/resistivity', ok, se.loc(), why)
    si = m.func('mininec.Skin_Effect_Load.impedance')
    reads = {e.attr for e in prog.effects[si.qual] if e.cls == 'Skin_Effect_Load' and e.mode == 'read'}
    ck.ob('R-DEP.skin', si.qual + '|reads', 'conductivity' in reads and 'resistivity' not in reads, si.loc(),
          'impedance reads load attributes %s' % sorted(reads))

    # ---------------------------------------------------------------- closed-form distributed loads
    # compared as rational functions over role-named atoms (robust to renaming and reordering)
    from ..poly import poly_roles, roles_of_text, cancel
    ck.rule('R-FORM.distributed', 'skin-effect / insulation per-length impedance equals the documented closed form')

    def local_env(func, upto=None):
        env = {}
        for s_ in walk_no_nested(func.node):
            if isinstance(s_, ast.Assign) and len(s_.targets) == 1 and isinstance(s_.targets[0], ast.Name):
                nm = s_.targets[0].id
                if nm in env:
                    env[nm] = None          # several definitions: keep opaque
                else:
                    env[nm] = s_.value
        return {k: v for k, v in env.items() if v is not None}

    def same(got_expr, env, want_text, key, func, node):
        try:
            got = cancel(poly_roles(got_expr, env))
            want = roles_of_text(want_text)
            ok = cancel(got - want).t == {}
            why = '%s == %s' % (norm(got_expr)[:60], want_text) if ok else \
                '%s evaluates to %r, documented form %s is %r' % (norm(got_expr)[:50], got, want_text, want)
        except (ValueError, ZeroDivisionError) as e_:
            ok, why = False, 'expression not understood: %s' % e_
        ck.ob('R-FORM.distributed', key, ok, func.loc(node), why)
    se_i = m.func('mininec.Skin_Effect_Load.impedance')
    env = local_env(se_i)
    zi = [s_ for s_ in walk_no_nested(se_i.node) if isinstance(s_, ast.Assign) and
          isinstance(s_.targets[0], ast.Name) and s_.targets[0].id == 'zint']
    ks = [s_ for s_ in walk_no_nested(se_i.node) if isinstance(s_, ast.Assign) and
          isinstance(s_.targets[0], ast.Name) and s_.targets[0].id == 'k']
    if len(zi) != 1 or len(ks) != 1:
        raise AnalysisError('skin effect: zint / k definitions not found')
    env_k = {k_: v for k_, v in env.items() if k_ in ('omg', 'fhz')}
    # zint = k / (2 pi a sigma) * b   (b = J0(ka)/J1(ka) or its large-argument limit)
    same(zi[0].value, {}, 'k / (2 * pi * r_orig * conductivity) * b', se_i.qual + '|zint', se_i, zi[0])
    kv = ks[0].value
    ok = isinstance(kv, ast.Call) and (dotted(kv.func) or '').endswith('sqrt') and len(kv.args) == 1
    if ok:
        same(kv.args[0], env_k, '-1j * (2 * pi * (f * 1e6)) * mu_0 * conductivity', se_i.qual + '|k^2', se_i, ks[0])
    else:
        ck.ob('R-FORM.distributed', se_i.qual + '|k^2', False, se_i.loc(ks[0]), 'k is not a square root')
    bs = [s_ for s_ in walk_no_nested(se_i.node) if isinstance(s_, ast.Assign) and
          isinstance(s_.targets[0], ast.Name) and s_.targets[0].id == 'b']
    forms = sorted(norm(s_.value) for s_ in bs)
    ok = forms == ['1j', 'jv(0, kr) / jv(1, kr)']
    if ok:
        krd = env.get('kr')
        ok = krd is not None and cancel(poly_roles(krd, {}) - roles_of_text('k * r_orig')).t == {}
    ck.ob('R-FORM.distributed', se_i.qual + '|bessel-ratio', ok, se_i.loc(bs[0] if bs else None),
          'b = J0(k a) / J1(k a), asymptote 1j: %s' % forms)
    acc = [s_ for s_ in walk_no_nested(se_i.node) if isinstance(s_, ast.AugAssign) and isinstance(s_.op, ast.Add)]
    ok = len(acc) == 1
    if ok:
        # x += l * zint (the cached pair's value); l = | dvecs(i - 0.5)[0] - dvecs(...)[1] |
        pr = product_of(acc[0].value)
        nn, dd = pr.texts()
        ok = len(nn) == 2 and 'l' in nn and any('zint' in t for t in nn) and not dd and pr.coef == 1
        ld_ = env.get('l')
        dv_ = env.get('dv')
        ok = ok and ld_ is not None and norm(ld_) == 'np.linalg.norm(dv[0] - dv[1])' and \
            dv_ is not None and norm(dv_) == 'pulse.dvecs(i - 0.5)'
    ck.ob('R-FORM.distributed', se_i.qual + '|length-of-half', ok, se_i.loc(acc[0] if acc else None),
          'adds (length of the half segment on object i) * zint of that object')
    in_i = m.func('mininec.Insulation_Load.impedance')
    zs = [s_ for s_ in walk_no_nested(in_i.node) if isinstance(s_, ast.Assign) and
          isinstance(s_.targets[0], ast.Attribute) and s_.targets[0].attr == 'zins']
    if len(zs) != 1:
        raise AnalysisError('insulation: zins definition not found')
    same(zs[0].value, {}, 'mu_0 * (epsilon_r - 1) / epsilon_r * log(radius / r_orig) / (2 * pi)',
         in_i.qual + '|zins', in_i, zs[0])
    acc = [s_ for s_ in walk_no_nested(in_i.node) if isinstance(s_, ast.AugAssign) and isinstance(s_.op, ast.Add)]
    if len(acc) == 1:
        env_i = {k_: v for k_, v in local_env(in_i).items() if k_ in ('omg', 'fhz')}
        same(acc[0].value, env_i, 'zins * (2 * pi * (f * 1e6)) * 1j * (seg_len / 2)', in_i.qual + '|contribution',
             in_i, acc[0])
    else:
        ck.ob('R-FORM.distributed', in_i.qual + '|contribution', False, in_i.loc(), '%d accumulations' % len(acc))
    gr = m.func('mininec.Geobj.r')
    rets = [r_ for r_ in walk_no_nested(gr.node) if isinstance(r_, ast.Return)]
    env_r = local_env(gr)
    forms = sorted(norm(ctx.flow(gr).inline(r_.value, ctx.flow(gr).node_id_of(r_))) for r_ in rets)
    ok = forms == sorted(['self._r', 'self.coat_load.radius * (self._r / self.coat_load.radius) ** (1 / self.coat_load.epsilon_r)'])
    ck.ob('R-FORM.distributed', gr.qual + '|equivalent-radius', ok, gr.loc(),
          'equivalent radius b * (a / b) ** (1 / eps_r) with insulation, a otherwise: %s' % forms)

    # ---------------------------------------------------------------- D5
    rl = m.func('mininec.Mininec.register_load')
    rfl2 = ctx.flow(rl)
    n_loops = 0
    for l in loops_in(rl.node):
        if isinstance(l, ast.For) and isinstance(l.iter, ast.Call) and \
           isinstance(l.iter.func, ast.Attribute) and l.iter.func.attr == 'pulse_iter':
            mn, mx = loop_reaches_on_all_paths(rfl2, l, lambda n: n.stmt is not None and n.kind == 'stmt'
                                               and any(isinstance(c, ast.Call) and isinstance(c.func, ast.Attribute)
                                                       and c.func.attr == 'add_pulse' for c in ast.walk(n.stmt)))
            allp = not l.iter.args and not l.iter.keywords
            ck.ob('R-EXH.attach', '%s|all-pulses-loop#%d' % (rl.qual, n_loops), (mn, mx) == (1, 1) and allp,
                  rl.loc(l), 'add_pulse once per pulse of pulse_iter() (ends included)')
            n_loops += 1
    ck.floor('attach-all loops', n_loops, 1)
    pi = m.func('mininec.Geobj.pulse_iter')
    d = pi.defaults().get('yield_ends')
    ok = isinstance(d, ast.Constant) and d.value is True and 'self.pulses' in ' '.join(norm(l.iter) for l in loops_in(pi.node))
    ck.ob('R-EXH.attach', pi.qual, ok, pi.loc(), 'pulse_iter() default yields all of self.pulses incl. junction pulses')
    apps = [c for c in walk_no_nested(rl.node) if isinstance(c, ast.Call) and isinstance(c.func, ast.Attribute)
            and c.func.attr == 'append' and norm(c.func.value) == 'self.loads']
    nums = [s_ for s_ in walk_no_nested(rl.node) if isinstance(s_, ast.Assign) and norm(s_.targets[0]) == 'load.n']
    ok = len(apps) >= 1 and len(apps) == len(nums)
    for c in apps + nums:
        g = [t for t, b in if_chain_preds(rfl2.cfg, rfl2.node_id_of(c)) if b]
        ok = ok and 'load.n is None' in g
    ok = ok and all(norm(s_.value) == 'len(self.loads)' for s_ in nums)
    ck.ob('R-EXH.attach', rl.qual + '|register-once', ok, rl.loc(),
          'a load is numbered len(self.loads) and appended only under `load.n is None` (%d sites)' % len(apps))
    ap = m.func('mininec._Load.add_pulse')
    ok = [norm(s) for s in ap.body()] == ['self.pulses.append(pulse)']
    ck.ob('R-EXH.attach', ap.qual, ok, ap.loc(), 'add_pulse appends the pulse once')

    # R-CACHE for the per-object skin cache (shared with C14)
    from .C14 import run_cache_rule
    run_cache_rule(ctx, ck, only={'mininec.Skin_Effect_Load.impedance|<obj>.zint'}, rule='R-CACHE.owner-only')
    ck.rule('R-CACHE.owner-only', 'cached per-length impedance depends only on its owner or is keyed')
    ck.undecided += ['Bessel-function asymptote / closed-form wire impedance values',
                     'numerical equality of loaded and unloaded feed impedance']
