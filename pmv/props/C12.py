"""C12  Number and placement of current unknowns follow from the wire topology.

Decided:
 D1 R-PAIR   every Pulse(...) creation in Geobj.compute_connections is followed on all paths by
             `p.n = pc`, `pc += 1`, `self.pulses.append(p)`, exactly once each; Pulse.__init__
             registers itself with the container exactly once; Pulse_Container.add is the only
             writer of pulse.idx / pulse_idx, stores then increments => numbering 0..N-1 without
             gaps in creation order; len() is that counter.
 D2          the creation sites are exactly those of the count formula: one per interior joint
             (loop over segments[:-1], pulse at the shared point of consecutive segments), one
             per grounded end K (under is_ground[K], gnd=K), one per connected end K (under
             idx_K != 0, with a sign vector).
 D3 R-LIT    the end-matching tolerance is the same literal (1e-3) times min_seglen at all sites.
Not decided: that _add_conn / idx give k-1 pulses for every junction graph (runtime topology).
"""
import ast
from ..model import AnalysisError, walk_no_nested, norm, dotted, parent, is_const, const_value
from ..dataflow import product_of
from ..rules import loops_in, loop_reaches_on_all_paths
from ..cfg import if_chain_preds

CC = 'mininec.Geobj.compute_connections'


def creations(f):
    out = []
    for n in walk_no_nested(f.node):
        if isinstance(n, ast.Assign) and isinstance(n.value, ast.Call) and \
           isinstance(n.value.func, ast.Name) and n.value.func.id == 'Pulse' and \
           len(n.targets) == 1 and isinstance(n.targets[0], ast.Name):
            out.append(n)
    return sorted(out, key=lambda s: s.lineno)


def run(ctx, ck):
    prog = ctx.program
    m = ctx.model
    ck.rule('R-PAIR.create-register', 'Pulse creation followed once by p.n=pc, pc+=1, pulses.append(p)')
    ck.rule('R-PAIR.container', 'Pulse.__init__ adds itself once; add() is sole writer of idx, store-then-increment')
    ck.rule('R-SITES.count-formula', 'creation sites = interior joints + grounded ends + connected ends')
    ck.rule('R-LIT.tolerance', 'matching tolerance literal identical at all sites (1e-3 * min_seglen)')

    f = m.func(CC)
    fl = ctx.flow(f)
    cfg = fl.cfg
    cs = creations(f)
    ck.floor('Pulse creations in compute_connections', len(cs), 5)
    cids = {cfg.node_of(c) for c in cs}
    for i, c in enumerate(cs):
        var = c.targets[0].id
        cid = cfg.node_of(c)
        stops = {cfg.exit.id, cfg.raise_exit.id} | (cids - {cid})
        region = None
        # enclosing loop: the iteration ends at the loop header
        p = parent(c)
        while p is not None and p is not f.node:
            if isinstance(p, (ast.For, ast.While)):
                stops.add(cfg.node_of(p))
                break
            p = parent(p)
        succ = [b for (b, l) in cfg.nodes[cid].succ if l != 'exc']
        start = succ[0]

        def cnt(pred):
            if start in stops:
                return (0, 0)
            return cfg.count_range(start, stops, lambda n: n.stmt is not None and n.kind == 'stmt' and pred(n.stmt))

        def is_n(s):
            return isinstance(s, ast.Assign) and norm(s.targets[0]) == '%s.n' % var

        def is_inc(s):
            return isinstance(s, ast.AugAssign) and isinstance(s.op, ast.Add) and \
                isinstance(s.target, ast.Name) and norm(s.value) == '1'

        def is_app(s):
            return isinstance(s, ast.Expr) and isinstance(s.value, ast.Call) and \
                isinstance(s.value.func, ast.Attribute) and s.value.func.attr == 'append' and \
                dotted(s.value.func.value) == 'self.pulses' and [norm(a) for a in s.value.args] == [var]
        guards = if_chain_preds(cfg, cid)
        gtxt = ' & '.join(('' if b else 'not ') + t for t, b in reversed(guards)) or 'loop over interior joints'
        key = '%s|site[%s]' % (CC, gtxt[:80])
        for name, pred in (('p.n=pc', is_n), ('pc+=1', is_inc), ('pulses.append(p)', is_app)):
            r = cnt(pred)
            ck.ob('R-PAIR.create-register', '%s|%s' % (key, name), r == (1, 1), f.loc(c),
                  '%s after creation: min %s max %s' % (name, r[0], r[1]))
        # the numbering statement uses the running counter
        nst = [s for s in walk_no_nested(f.node) if is_n(s)]
    # counter starts at 0 and p.n = <counter>
    incs = [s for s in walk_no_nested(f.node) if isinstance(s, ast.AugAssign) and isinstance(s.op, ast.Add)
            and isinstance(s.target, ast.Name) and norm(s.value) == '1']
    cnames = {s.target.id for s in incs}
    ok = len(cnames) == 1
    cn = next(iter(cnames)) if ok else '?'
    inits = [s for s in walk_no_nested(f.node) if isinstance(s, ast.Assign) and
             isinstance(s.targets[0], ast.Name) and s.targets[0].id == cn]
    ok = ok and len(inits) == 1 and norm(inits[0].value) == '0'
    ns = [s for s in walk_no_nested(f.node) if isinstance(s, ast.Assign) and
          isinstance(s.targets[0], ast.Attribute) and s.targets[0].attr == 'n']
    ok = ok and all(norm(s.value) == cn for s in ns) and len(ns) >= 5
    ck.ob('R-PAIR.create-register', CC + '|counter', ok, f.loc(), 'per-object counter %s starts at 0; %d `p.n = %s`'
          % (cn, len(ns), cn))

    # container
    pi = m.func('pulse.Pulse.__init__')
    pfl = ctx.flow(pi)
    adds = [c for c in walk_no_nested(pi.node) if isinstance(c, ast.Call) and isinstance(c.func, ast.Attribute)
            and c.func.attr == 'add' and [norm(a) for a in c.args] == ['self']]
    ok = len(adds) == 1
    if ok:
        aid = pfl.node_id_of(adds[0])
        ok = pfl.cfg.must_pass(pfl.cfg.exit.id, {aid}) and norm(adds[0].func.value) in ('self.container', 'container')
    ck.ob('R-PAIR.container', pi.qual + '|add-once', ok, pi.loc(), 'Pulse.__init__ calls container.add(self) once on every path')
    ad = m.func('pulse.Pulse_Container.add')
    afl = ctx.flow(ad)
    body = [norm(s) for s in ad.body() if not isinstance(s, ast.Assert)]
    st_idx = [i for i, t in enumerate(body) if t == 'pulse.idx = self.pulse_idx']
    st_inc = [i for i, t in enumerate(body) if t in ('self.pulse_idx += 1', 'self.pulse_idx = self.pulse_idx + 1')]
    st_app = [i for i, t in enumerate(body) if t == 'self.pulses.append(pulse)']
    ok = len(st_idx) == 1 and len(st_inc) == 1 and len(st_app) == 1 and st_idx[0] < st_inc[0] and len(body) == 3
    ck.ob('R-PAIR.container', ad.qual + '|store-then-increment', ok, ad.loc(), 'add(): %s' % body)
    for cls, attr, allowed in (('Pulse', 'idx', {'pulse.Pulse_Container.add'}),
                               ('Pulse_Container', 'pulse_idx', {'pulse.Pulse_Container.add',
                                                                 'pulse.Pulse_Container.__init__'})):
        writers = sorted({e.func.qual for q, es in prog.effects.items() for e in es
                          if e.attr == attr and e.mode != 'read' and e.cls in (cls, '?')})
        ck.ob('R-PAIR.container', 'writers|%s.%s' % (cls, attr), set(writers) <= allowed and bool(writers),
              ad.loc(), 'writers of %s.%s: %s' % (cls, attr, writers))
    ini = m.func('pulse.Pulse_Container.__init__')
    ok = any(norm(s) == 'self.pulse_idx = 0' for s in ini.body())
    ln = m.func('pulse.Pulse_Container.__len__')
    ok = ok and [norm(s) for s in ln.body()] == ['return self.pulse_idx']
    ck.ob('R-PAIR.container', 'counter-init-and-len', ok, ini.loc(), 'pulse_idx starts at 0; len() returns it')

    # ---------------------------------------------------------------- D2
    kinds = {}
    for c in cs:
        call = c.value
        kws = {k.arg: k.value for k in call.keywords}
        guards = if_chain_preds(cfg, cfg.node_of(c))
        gt = [t for t, b in guards if b]
        inloop = None
        p = parent(c)
        while p is not None and p is not f.node:
            if isinstance(p, ast.For):
                inloop = p
            p = parent(p)
        if inloop is not None:
            kinds.setdefault('interior', []).append((c, inloop))
        elif 'gnd' in kws:
            kinds.setdefault('gnd', []).append((c, kws['gnd'], gt))
        elif 'sgn' in kws:
            kinds.setdefault('conn', []).append((c, gt))
        else:
            kinds.setdefault('other', []).append((c,))
    ck.ob('R-SITES.count-formula', CC + '|site-kinds', sorted((k, len(v)) for k, v in kinds.items()) ==
          [('conn', 2), ('gnd', 2), ('interior', 1)], f.loc(),
          'creation sites: %s' % sorted((k, len(v)) for k, v in kinds.items()))
    for c, loop in kinds.get('interior', []):
        it = norm(loop.iter)
        ok = it in ('enumerate(self.segments[:-1])',)
        args = [norm(a) for a in c.value.args]
        # Pulse(container, point, end1, end2, seg1, seg2)
        tg = loop.target
        seg = tg.elts[1].id if isinstance(tg, ast.Tuple) and len(tg.elts) == 2 else '?'
        idx = tg.elts[0].id if isinstance(tg, ast.Tuple) else '?'
        nxt = [s for s in loop.body if isinstance(s, ast.Assign) and norm(s.value) == 'self.segments[%s + 1]' % idx]
        ok = ok and len(nxt) == 1
        if ok:
            nn = nxt[0].targets[0].id
            ok = args[1:] == ['%s.p2' % seg, '%s.p1' % seg, '%s.p2' % nn, seg, nn]
        mn, mx = loop_reaches_on_all_paths(fl, loop, lambda n: n.stmt is c)
        ck.ob('R-SITES.count-formula', CC + '|interior', ok and (mn, mx) == (1, 1), f.loc(c),
              'one pulse per interior joint, at the point shared by consecutive segments: Pulse(%s)' % ', '.join(args))
    for c, g, gt in kinds.get('gnd', []):
        K = g.value if isinstance(g, ast.Constant) else None
        ok = K in (0, 1) and any(t == 'self.is_ground[%d]' % K for t in gt)
        ck.ob('R-SITES.count-formula', CC + '|grounded-end|%s' % K, ok, f.loc(c),
              'Pulse(gnd=%s) under guard %s' % (K, gt))
    seenK = set()
    for c, gt in kinds.get('conn', []):
        K = None
        for t in gt:
            for k in (1, 2):
                if t.startswith('self.idx_%d != 0' % k):
                    K = k
        ok = K is not None and K not in seenK
        seenK.add(K)
        ck.ob('R-SITES.count-formula', CC + '|connected-end|%s' % K, ok, f.loc(c),
              'Pulse(sgn=...) under guard %s' % gt)

    # ---------------------------------------------------------------- D3
    sites = []
    for q in (CC, 'mininec.Geobj.compute_ground', 'mininec.Wire.compute_ground',
              'mininec.Arc.compute_ground', 'mininec.Helix.compute_ground'):
        g = m.func(q)
        for s in walk_no_nested(g.node):
            if isinstance(s, ast.Assign) and any(isinstance(x, ast.Attribute) and x.attr == 'min_seglen'
                                                 for x in ast.walk(s.value)):
                pr = product_of(s.value)
                sites.append((g, s, pr))
    ck.floor('tolerance sites', len(sites), 5)
    coefs = {pr.coef for g, s, pr in sites}
    for g, s, pr in sites:
        nn, dd = pr.texts()
        ok = abs(pr.coef - 1e-3) < 1e-15 and len(nn) == 1 and nn[0].endswith('min_seglen') and not dd
        # the shortest segment of the whole structure (Mininec / Geo_Container), not of one object
        if ok:
            fac = [x for t, x in pr.num][0]
            rt = prog.type_of(fac.value, prog.env[g.qual], g) if isinstance(fac, ast.Attribute) else None
            from ..resolve import classes_of
            cls = classes_of(rt) if rt is not None else []
            glob = bool(cls) and set(cls) <= {'Mininec', 'Geo_Container'}
            if not glob:
                ck.ob('R-LIT.tolerance', '%s|%s|global' % (g.qual, norm(s.targets[0])), False, g.loc(s),
                      'tolerance is taken from %s (an attribute of %s): the matching tolerance must be 1/1000 of '
                      'the shortest segment of the whole structure' % (norm(fac), cls or 'an unresolved receiver'))
                continue
        ck.ob('R-LIT.tolerance', '%s|%s' % (g.qual, norm(s.targets[0])), ok, g.loc(s),
              'tolerance = %r * %s' % (pr.coef, nn))
    ck.ob('R-LIT.tolerance', 'all-equal', len(coefs) == 1, f.loc(), 'tolerance literals used: %s' % sorted(coefs))
    # matching comparison uses the tolerance with <=
    cmp_ = [n for n in walk_no_nested(f.node) if isinstance(n, ast.Compare) and 'linalg.norm' in norm(n.left)]
    ok = len(cmp_) == 1 and isinstance(cmp_[0].ops[0], (ast.LtE, ast.Lt))
    if ok:
        r = fl.roots(cmp_[0].comparators[0], fl.node_id_of(cmp_[0]))
        ok = any(x[0] == 'attrname' and x[1] == 'min_seglen' for x in r) or \
            any(x[0] == 'attr' and x[1].endswith('min_seglen') for x in r)
    ck.ob('R-LIT.tolerance', CC + '|distance-compare', ok, f.loc(cmp_[0] if cmp_ else None),
          'ends joined when distance <= tolerance')
    from ._endidx import check_end_index
    ck.rule('R-COUNT.end-index', 'predicted index of the end pulses == number of pulses created before them (all end states)')
    ncases = check_end_index(ctx, ck)
    ck.floor('end-state cases', ncases, 30)
    ck.undecided += ['k-1 pulses for every junction of k ends (depends on runtime connection graph)']
