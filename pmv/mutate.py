"""In-memory source mutants / refactors: (function, old snippet, new snippet) -> overrides dict.
Nothing is written to disk."""
import os
from .model import Model, PKG


def func_span(model, qual):
    f = model.funcs.get(qual)
    if f is None:
        return None
    node = f.node
    start = node.lineno
    if node.decorator_list:
        start = min(d.lineno for d in node.decorator_list)
    return f.module, start, node.end_lineno


def make_override(model, qual, old, new, count=1):
    """returns {relpath: new source} or None when the site does not exist (mutant skipped)"""
    sp = func_span(model, qual)
    if sp is None:
        return None
    mod, a, b = sp
    lines = mod.src.split('\n')
    seg = '\n'.join(lines[a - 1:b])
    if seg.count(old) != count:
        return None
    seg2 = seg.replace(old, new)
    src = '\n'.join(lines[:a - 1] + seg2.split('\n') + lines[b:])
    rel = os.path.join(PKG, mod.name + '.py')
    return {rel: src}


def make_overrides(model, edits):
    """several edits [(qual, old, new)], applied sequentially (may touch several files)"""
    overrides = {}
    cur = model
    for (qual, old, new) in edits:
        o = make_override(cur, qual, old, new)
        if o is None:
            return None
        overrides.update(o)
        cur = Model(repo=model.repo, overrides=overrides)
    return overrides
